(* C20 — proofs about the require model. *)
From Coq Require Import List ZArith Bool Lia Arith.
From GL Require Import Req.ReqModel.
Import ListNotations.
Open Scope Z_scope.

(* ------------------------------------------------------------------ *)
(* basics *)

Lemma upd_same {A} (f : name -> A) n a : upd f n a n = a.
Proof. unfold upd. now rewrite Z.eqb_refl. Qed.

Lemma upd_other {A} (f : name -> A) n a m : m <> n -> upd f n a m = f m.
Proof. unfold upd. intros H. destruct (m =? n) eqn:E; [apply Z.eqb_eq in E; contradiction|reflexivity]. Qed.

Lemma loaded_set_same s n v : loaded (set_loaded s n v) n = v.
Proof. simpl. apply upd_same. Qed.

Lemma loaded_set_other s n v m : m <> n -> loaded (set_loaded s n v) m = loaded s m.
Proof. simpl. apply upd_other. Qed.

Lemma sent_truthy v : is_sent v = true -> truthy v = true.
Proof. destruct v; simpl; congruence. Qed.

Lemma table_truthy v : is_table v = true -> truthy v = true.
Proof. destruct v; simpl; congruence. Qed.

Lemma falsy_ne s n m : truthy (loaded s n) = false -> truthy (loaded s m) = true -> m <> n.
Proof. intros H1 H2 E. subst. congruence. Qed.

(* the searchers only look at package.preload, the files and package.path *)
Definition cfg_eq (s s' : state) : Prop :=
  preload s' = preload s /\ files s' = files s /\ path s' = path s.

Lemma search_cfg s s' n : cfg_eq s s' -> search loLoaders s' n [] = search loLoaders s n [].
Proof.
  intros (Hp & Hf & Hq). unfold loLoaders, search, loLoaderPreload, loLoaderLua.
  now rewrite Hp, Hf, Hq.
Qed.

(* what a successful search means *)
Lemma search_found s n o k sc :
  search loLoaders s n [] = inr (o, k, sc) ->
  (exists l, preload s n = Some l /\ o = OPre /\ k = lk l /\ sc = lscript l) \/
  (preload s n = None /\ exists d, o = OFile d /\ k = KLua /\
     loFindFile (files s) n (path s) [] = inl (d, FScript sc)).
Proof.
  unfold loLoaders, search, loLoaderPreload, loLoaderLua.
  destruct (preload s n) as [l|] eqn:Hp.
  - intros H. inversion H; subst. left. now exists l.
  - destruct (loFindFile (files s) n (path s) []) as [[d [sc'| |]]|msgs] eqn:Hf; simpl; intros H; try discriminate.
    inversion H; subst. right. split; [reflexivity|]. now exists d.
Qed.

Lemma search_preload s n l :
  preload s n = Some l -> search loLoaders s n [] = inr (OPre, lk l, lscript l).
Proof. intros H. unfold loLoaders, search, loLoaderPreload. now rewrite H. Qed.

(* ------------------------------------------------------------------ *)
(* stability: what a require call (with everything nested in it) may change, seen from a state s *)

Definition stable (s s' : state) : Prop :=
  cfg_eq s s' /\ tfuncs s' = tfuncs s /\ next s <= next s' /\
  (forall m, truthy (loaded s m) = true -> loaded s' m = loaded s m) /\
  (exists l, log s' = l ++ log s /\
     forall m o, In (m, o) l ->
       truthy (loaded s m) = false /\ exists k sc, search loLoaders s m [] = inr (o, k, sc)).

Lemma stable_refl s : stable s s.
Proof.
  repeat split; try reflexivity; try lia. exists []. split; [reflexivity|]. intros m o [].
Qed.

Lemma stable_trans s1 s2 s3 : stable s1 s2 -> stable s2 s3 -> stable s1 s3.
Proof.
  intros (C1 & T1 & N1 & L1 & (l1 & E1 & I1)) (C2 & T2 & N2 & L2 & (l2 & E2 & I2)).
  assert (C13 : cfg_eq s1 s3).
  { destruct C1 as (a & b & c), C2 as (a' & b' & c'). repeat split; congruence. }
  split; [exact C13|]. split; [congruence|]. split; [lia|]. split.
  - intros m Hm. rewrite L2; [now apply L1|]. rewrite L1; assumption.
  - exists (l2 ++ l1). split; [rewrite E2, E1; now rewrite app_assoc|].
    intros m o Hin. apply in_app_or in Hin. destruct Hin as [Hin|Hin]; [|now apply I1].
    destruct (I2 m o Hin) as (F2 & k & sc & S2).
    split.
    + destruct (truthy (loaded s1 m)) eqn:E; [|reflexivity].
      rewrite <- (L1 m E) in E. congruence.
    + exists k, sc. now rewrite <- (search_cfg s1 s2 m C1).
Qed.

Lemma stable_set_loaded s0 s n v :
  stable s0 s -> truthy (loaded s0 n) = false -> stable s0 (set_loaded s n v).
Proof.
  intros (C & T & N & L & Lg) F. repeat split; try apply C; try assumption.
  intros m Hm. rewrite loaded_set_other; [now apply L|]. eapply falsy_ne; eauto.
Qed.

Lemma stable_enter s0 s n o k sc :
  stable s0 s -> truthy (loaded s0 n) = false -> search loLoaders s0 n [] = inr (o, k, sc) ->
  stable s0 (enter s n o).
Proof.
  intros (C & T & N & L & (l & E & I)) F S. repeat split; try apply C; try assumption.
  - simpl. lia.
  - exists ((n, o) :: l). split; [simpl; now rewrite E|].
    intros m o' [Heq|Hin]; [|now apply I]. inversion Heq; subst. split; [assumption|]. now exists k, sc.
Qed.

Lemma stable_global_bump s0 s n v :
  stable s0 s -> stable s0 (bump (set_global s n v)).
Proof.
  intros (C & T & N & L & Lg). repeat split; try apply C; try assumption. simpl. lia.
Qed.

Lemma stable_find_table s0 s n s1 r :
  stable s0 s -> find_table_global s n = (s1, r) -> stable s0 s1.
Proof.
  intros H. unfold find_table_global. destruct (globals s n); intros E; inversion E; subst; try assumption.
  now apply stable_global_bump.
Qed.

Lemma stable_module s0 s n k s1 r :
  stable s0 s -> truthy (loaded s0 n) = false -> do_module s n k = (s1, r) -> stable s0 s1.
Proof.
  intros H F. unfold do_module. destruct (is_table (loaded s n)).
  - simpl. destruct k; intros E; inversion E; now subst.
  - destruct (find_table_global s n) as [s' [t|]] eqn:Ef.
    + pose proof (stable_find_table _ _ _ _ _ H Ef) as H'.
      simpl. destruct k; intros E; inversion E; subst; now apply stable_set_loaded.
    + pose proof (stable_find_table _ _ _ _ _ H Ef) as H'. simpl. intros E; inversion E; now subst.
Qed.

Section RunScript.
  Variable req : state -> name -> state * result.
  Hypothesis req_stable : forall s m s' r, req s m = (s', r) -> stable s s'.

  Lemma run_script_stable self id k sc : forall s0 s s' r,
    stable s0 s -> truthy (loaded s0 self) = false ->
    run_script req self id k sc s = (s', r) -> stable s0 s'.
  Proof.
    induction sc as [|a sc IH]; intros s0 s s' r H F E; simpl in E.
    - inversion E; now subst.
    - destruct a.
      + destruct (req s m) as [s1 res] eqn:Er.
        pose proof (stable_trans _ _ _ H (req_stable _ _ _ _ Er)) as H1.
        destruct res; try (inversion E; now subst). eapply IH; eauto.
      + destruct (req s m) as [s1 res] eqn:Er.
        pose proof (stable_trans _ _ _ H (req_stable _ _ _ _ Er)) as H1.
        destruct res; try (inversion E; now subst); eapply IH; eauto.
      + eapply IH; [|exact F|exact E]. now apply stable_set_loaded.
      + destruct (do_module s self k) as [s1 [e|]] eqn:Em.
        * inversion E; subst. eapply stable_module; eauto.
        * eapply IH; [|exact F|exact E]. eapply stable_module; eauto.
      + inversion E; now subst.
      + inversion E; now subst.
      + inversion E; now subst.
  Qed.
End RunScript.

(* the three ways of finishing a load only touch package.loaded[n] *)
Definition fin_local (fin : state -> name -> value -> state * result) : Prop :=
  forall s0 s n ret s' r, stable s0 s -> truthy (loaded s0 n) = false -> fin s n ret = (s', r) -> stable s0 s'.

Lemma finish_local : fin_local finish.
Proof.
  intros s0 s n ret s' r H F. unfold finish.
  set (s4 := if is_nil ret then s else set_loaded s n ret).
  assert (H4 : stable s0 s4) by (unfold s4; destruct (is_nil ret); [assumption|now apply stable_set_loaded]).
  destruct (is_sent (loaded s4 n)); intros E; inversion E; subst; [now apply stable_set_loaded|assumption].
Qed.

Lemma finish51_local : fin_local finish51.
Proof.
  intros s0 s n ret s' r H F. unfold finish51.
  set (s4 := match ret with VNil => s | _ => set_loaded s n ret end).
  assert (H4 : stable s0 s4) by (unfold s4; destruct ret; try assumption; now apply stable_set_loaded).
  destruct (loaded s4 n); intros E; inversion E; subst; try assumption. now apply stable_set_loaded.
Qed.

Lemma finish_old_local : fin_local finish_old.
Proof.
  intros s0 s n ret s' r H F. unfold finish_old.
  destruct (negb (is_nil ret) && is_sent (loaded s n)); [intros E; inversion E; subst; now apply stable_set_loaded|].
  destruct (is_sent (loaded s n)); intros E; inversion E; subst; [now apply stable_set_loaded|assumption].
Qed.

Lemma require_gen_S fin f s n :
  require_gen fin (S f) s n =
  let lv := loaded s n in
  if truthy lv then (if is_sent lv then (s, Err (ELoop n)) else (s, Ok lv))
  else match search loLoaders s n [] with
       | inl e => (s, Err e)
       | inr (o, k, sc) =>
         let s1 := set_loaded s n VSent in
         let '(s3, r) := run_script (require_gen fin f) n (next s1) k sc (enter s1 n o) in
         match r with
         | Ok ret => fin s3 n ret
         | _ => (s3, r)
         end
       end.
Proof. reflexivity. Qed.

Lemma require_gen_stable fin : fin_local fin ->
  forall f s n s' r, require_gen fin f s n = (s', r) -> stable s s'.
Proof.
  intros Hfin. induction f as [|f IH]; intros s n s' r E.
  - simpl in E. inversion E; subst. apply stable_refl.
  - rewrite require_gen_S in E. cbv zeta in E. destruct (truthy (loaded s n)) eqn:Ht.
    + destruct (is_sent (loaded s n)); inversion E; subst; apply stable_refl.
    + destruct (search loLoaders s n []) as [e|[[o k] sc]] eqn:Es.
      * inversion E; subst. apply stable_refl.
      * destruct (run_script (require_gen fin f) n (next (set_loaded s n VSent)) k sc
                    (enter (set_loaded s n VSent) n o)) as [s3 r3] eqn:Er.
        assert (H2 : stable s (enter (set_loaded s n VSent) n o)).
        { eapply stable_enter; eauto. apply stable_set_loaded; [apply stable_refl|assumption]. }
        pose proof (run_script_stable _ IH _ _ _ _ _ _ _ _ H2 Ht Er) as H3.
        destruct r3; try (inversion E; now subst). eapply Hfin; eauto.
Qed.

Lemma require_stable f s n s' r : require f s n = (s', r) -> stable s s'.
Proof. apply require_gen_stable, finish_local. Qed.

Lemma require51_stable f s n s' r : require51 f s n = (s', r) -> stable s s'.
Proof. apply require_gen_stable, finish51_local. Qed.

Lemma require_S f s n :
  require (S f) s n =
  let lv := loaded s n in
  if truthy lv then (if is_sent lv then (s, Err (ELoop n)) else (s, Ok lv))
  else match search loLoaders s n [] with
       | inl e => (s, Err e)
       | inr (o, k, sc) =>
         let s1 := set_loaded s n VSent in
         let '(s3, r) := run_script (require f) n (next s1) k sc (enter s1 n o) in
         match r with
         | Ok ret => finish s3 n ret
         | _ => (s3, r)
         end
       end.
Proof. reflexivity. Qed.

(* ------------------------------------------------------------------ *)
(* results *)

Lemma finish_ok s n ret s' r :
  finish s n ret = (s', r) -> exists v, r = Ok v /\ loaded s' n = v /\ v <> VSent.
Proof.
  unfold finish. set (s4 := if is_nil ret then s else set_loaded s n ret).
  destruct (is_sent (loaded s4 n)) eqn:Es; intros E; inversion E; subst.
  - exists VTrue. rewrite loaded_set_same. repeat split; congruence.
  - exists (loaded s4 n). repeat split. intros C. rewrite C in Es. discriminate.
Qed.

(* a successful require returns exactly what is now stored, and never the sentinel *)
Lemma require_ok_loaded_lemma f s n s' v :
  require f s n = (s', Ok v) -> loaded s' n = v /\ v <> VSent.
Proof.
  destruct f as [|f]; [simpl; intros E; inversion E|].
  rewrite require_S. cbv zeta. destruct (truthy (loaded s n)) eqn:Ht.
  - destruct (is_sent (loaded s n)) eqn:Es; intros E; inversion E; subst. split; [reflexivity|].
    intros C. rewrite C in Es. discriminate.
  - destruct (search loLoaders s n []) as [e|[[o k] sc]]; [intros E; inversion E|].
    destruct (run_script _ _ _ _ _ _) as [s3 r3]. destruct r3; try (intros E; inversion E; fail).
    intros E. destruct (finish_ok _ _ _ _ _ E) as (v' & Hv & Hl & Hs). inversion Hv; subst. now split.
Qed.

(* 5.1: a non-nil return value replaces whatever the loader stored (the repaired C20-1) *)
Lemma return_overrides_loaded_lemma s n ret :
  ret <> VNil -> ret <> VSent -> finish s n ret = (set_loaded s n ret, Ok ret).
Proof.
  intros H1 H2. unfold finish. destruct ret; try congruence; simpl; rewrite upd_same; reflexivity.
Qed.

Lemma nothing_gives_true_lemma s n :
  loaded s n = VSent -> finish s n VNil = (set_loaded s n VTrue, Ok VTrue).
Proof. intros H. unfold finish. simpl. now rewrite H. Qed.

Lemma nothing_keeps_stored_lemma s n :
  loaded s n <> VSent -> finish s n VNil = (s, Ok (loaded s n)).
Proof. intros H. unfold finish. simpl. destruct (loaded s n); simpl; congruence. Qed.

(* ------------------------------------------------------------------ *)
(* missing modules *)

Lemma loFindFile_none fs n : forall p msgs,
  (forall d, In d p -> readable (fs d n) = false) ->
  loFindFile fs n p msgs = inr (msgs ++ map (fun d => TPath d n) p).
Proof.
  induction p as [|d p IH]; intros msgs H; simpl.
  - now rewrite app_nil_r.
  - pose proof (H d (or_introl eq_refl)) as Hd.
    assert (E : loFindFile fs n p (msgs ++ [TPath d n]) = inr (msgs ++ TPath d n :: map (fun d => TPath d n) p)).
    { rewrite IH by (intros; apply H; now right). now rewrite <- app_assoc. }
    destruct (fs d n) as [[| |]|]; simpl in Hd; try discriminate; exact E.
Qed.

Lemma loFindFile_inr fs n : forall p msgs t,
  loFindFile fs n p msgs = inr t ->
  (forall d, In d p -> readable (fs d n) = false) /\ t = msgs ++ map (fun d => TPath d n) p.
Proof.
  induction p as [|d p IH]; intros msgs t; simpl.
  - intros E; inversion E; subst. split; [intros d []|now rewrite app_nil_r].
  - destruct (fs d n) as [[| |]|] eqn:Ef; try discriminate;
      (intros E; destruct (IH _ _ E) as (H1 & H2);
       split; [intros d' [<-|Hin]; [now rewrite Ef|auto]|now rewrite H2, <- app_assoc]).
Qed.

Lemma missing_lists_tried_lemma f s n :
  truthy (loaded s n) = false -> preload s n = None ->
  (forall d, In d (path s) -> readable (files s d n) = false) ->
  require (S f) s n = (s, Err (ENotFound n (TPre n :: map (fun d => TPath d n) (path s)))).
Proof.
  intros Ht Hp Hf. rewrite require_S. cbv zeta. rewrite Ht.
  unfold loLoaders, search, loLoaderPreload, loLoaderLua. rewrite Hp.
  now rewrite (loFindFile_none _ _ _ _ Hf).
Qed.

(* conversely: "not found" for n out of the search means exactly that nothing was there *)
Lemma not_found_only_if_missing_lemma s n m t :
  search loLoaders s n [] = inl (ENotFound m t) ->
  m = n /\ preload s n = None /\ (forall d, In d (path s) -> readable (files s d n) = false) /\
  t = TPre n :: map (fun d => TPath d n) (path s).
Proof.
  unfold loLoaders, search, loLoaderPreload, loLoaderLua.
  destruct (preload s n); [discriminate|].
  destruct (loFindFile (files s) n (path s) []) as [[d [sc| |]]|msgs] eqn:Ef; simpl; intros E; inversion E; subst.
  destruct (loFindFile_inr _ _ _ _ _ Ef) as (H1 & H2). subst. now repeat split.
Qed.

(* a failed search changes nothing, so a later require searches again *)
Lemma search_failure_changes_nothing_lemma f s n e :
  truthy (loaded s n) = false -> search loLoaders s n [] = inl e ->
  require (S f) s n = (s, Err e).
Proof. intros Ht Hs. rewrite require_S. cbv zeta. now rewrite Ht, Hs. Qed.

(* ------------------------------------------------------------------ *)
(* fuel: more fuel never changes a defined result *)

Section Mono.
  Variables req1 req2 : state -> name -> state * result.
  Hypothesis req_mono : forall s m s' r, req1 s m = (s', r) -> r <> OutOfFuel -> req2 s m = (s', r).

  Lemma run_script_mono self id k sc : forall s s' r,
    run_script req1 self id k sc s = (s', r) -> r <> OutOfFuel ->
    run_script req2 self id k sc s = (s', r).
  Proof.
    induction sc as [|a sc IH]; intros s s' r E Hr; simpl in *; [assumption|].
    destruct a; try assumption.
    - destruct (req1 s m) as [s1 res] eqn:Er. destruct res.
      + rewrite (req_mono _ _ _ _ Er) by discriminate. now apply IH.
      + rewrite (req_mono _ _ _ _ Er) by discriminate. assumption.
      + inversion E; subst. congruence.
    - destruct (req1 s m) as [s1 res] eqn:Er. destruct res.
      + rewrite (req_mono _ _ _ _ Er) by discriminate. now apply IH.
      + rewrite (req_mono _ _ _ _ Er) by discriminate. now apply IH.
      + inversion E; subst. congruence.
    - now apply IH.
    - destruct (do_module s self k) as [s1 [e|]]; [assumption|now apply IH].
  Qed.
End Mono.

Lemma require_gen_mono_S fin : forall f s n s' r,
  require_gen fin f s n = (s', r) -> r <> OutOfFuel -> require_gen fin (S f) s n = (s', r).
Proof.
  induction f as [|f IH]; intros s n s' r E Hr.
  - simpl in E. inversion E; subst. congruence.
  - rewrite require_gen_S in E |- *. cbv zeta in *.
    destruct (truthy (loaded s n)); [assumption|].
    destruct (search loLoaders s n []) as [e|[[o k] sc]]; [assumption|].
    destruct (run_script (require_gen fin f) n _ k sc _) as [s3 r3] eqn:Er.
    assert (Hr3 : r3 <> OutOfFuel) by (destruct r3; [discriminate|discriminate|inversion E; subst; congruence]).
    now rewrite (run_script_mono _ _ IH _ _ _ _ _ _ _ Er Hr3).
Qed.

Lemma require_gen_mono fin f f' s n s' r :
  (f <= f')%nat -> require_gen fin f s n = (s', r) -> r <> OutOfFuel ->
  require_gen fin f' s n = (s', r).
Proof.
  induction 1 as [|f' Hle IH]; intros E Hr; [assumption|]. apply require_gen_mono_S; auto.
Qed.

Lemma require_fuel_mono_lemma f f' s n s' r :
  (f <= f')%nat -> require f s n = (s', r) -> r <> OutOfFuel -> require f' s n = (s', r).
Proof. apply require_gen_mono. Qed.

(* ------------------------------------------------------------------ *)
(* fuel: the sentinel bounds the nesting by the number of modules not yet loaded *)

Definition le_truthy (s s' : state) : Prop :=
  forall m, truthy (loaded s m) = true -> truthy (loaded s' m) = true.

Lemma stable_le_truthy s s' : stable s s' -> le_truthy s s'.
Proof. intros (_ & _ & _ & L & _) m Hm. now rewrite (L m Hm). Qed.

Lemma unloaded_le s s' ns : le_truthy s s' -> (unloaded s' ns <= unloaded s ns)%nat.
Proof.
  intros H. induction ns as [|n ns IH]; simpl; [lia|].
  destruct (truthy (loaded s n)) eqn:E; [rewrite (H n E); lia|].
  destruct (truthy (loaded s' n)); lia.
Qed.

Lemma le_truthy_set s n v : truthy v = true -> le_truthy s (set_loaded s n v).
Proof.
  intros Hv m Hm. destruct (Z.eq_dec m n) as [->|Hne];
    [now rewrite loaded_set_same|now rewrite loaded_set_other].
Qed.

Lemma unloaded_dec s n v ns :
  In n ns -> truthy (loaded s n) = false -> truthy v = true ->
  (S (unloaded (set_loaded s n v) ns) <= unloaded s ns)%nat.
Proof.
  intros Hin Hf Hv. induction ns as [|m ns IH]; [contradiction|]. cbn [unloaded].
  destruct Hin as [->|Hin].
  - rewrite loaded_set_same, Hv, Hf.
    pose proof (unloaded_le s (set_loaded s n v) ns (le_truthy_set s n v Hv)). lia.
  - specialize (IH Hin).
    destruct (truthy (loaded s m)) eqn:E.
    + rewrite (le_truthy_set s n v Hv m E). lia.
    + destruct (truthy (loaded (set_loaded s n v) m)); lia.
Qed.

Lemma unloaded_ext s s' ns : loaded s' = loaded s -> unloaded s' ns = unloaded s ns.
Proof. intros H. induction ns as [|n ns IH]; simpl; [reflexivity|]. now rewrite H, IH. Qed.

Lemma unloaded_bound s ns : (unloaded s ns <= length ns)%nat.
Proof. induction ns as [|n ns IH]; simpl; [lia|]. destruct (truthy (loaded s n)); lia. Qed.

Lemma state_guarded_cfg s s' : cfg_eq s s' -> state_guarded s -> state_guarded s'.
Proof. intros (Hp & Hf & _) (G1 & G2). split; intros; [eapply G1|eapply G2]; [rewrite <- Hp|rewrite <- Hf]; eauto. Qed.

Lemma loadable_in_cfg s s' ns : cfg_eq s s' -> loadable_in s ns -> loadable_in s' ns.
Proof. intros (Hp & Hf & _) H n. rewrite Hp, Hf. apply H. Qed.

Lemma loFindFile_inl fs n : forall p msgs d c,
  loFindFile fs n p msgs = inl (d, c) -> fs d n = Some c /\ In d p /\ c <> FUnreadable.
Proof.
  induction p as [|d0 p IH]; intros msgs d c; simpl; [discriminate|].
  destruct (fs d0 n) as [[| |]|] eqn:Ef;
    try (intros E; inversion E; subst; split; [assumption|split; [now left|discriminate]]);
    (intros E; destruct (IH _ _ _ E) as (H1 & H2 & H3); split; [assumption|split; [now right|assumption]]).
Qed.

Lemma search_found_guarded s ns n o k sc :
  state_guarded s -> loadable_in s ns -> search loLoaders s n [] = inr (o, k, sc) ->
  In n ns /\ guarded sc = true.
Proof.
  intros (G1 & G2) HL Hs. destruct (search_found _ _ _ _ _ Hs) as [(l & Hp & _ & _ & ->)|(Hp & d & _ & _ & Hf)].
  - split; [apply HL; left; congruence|eapply G1; eauto].
  - apply loFindFile_inl in Hf. destruct Hf as (Hf & _). split.
    + apply HL. right. exists d. congruence.
    + apply (G2 _ _ _ Hf).
Qed.

Lemma find_table_cfg s n s1 r : find_table_global s n = (s1, r) -> cfg_eq s s1 /\ loaded s1 = loaded s.
Proof.
  unfold find_table_global. destruct (globals s n); intros E; inversion E; subst; repeat split; reflexivity.
Qed.

Lemma find_table_is_table s n s1 t : find_table_global s n = (s1, Some t) -> is_table t = true.
Proof. unfold find_table_global. destruct (globals s n); intros E; inversion E; reflexivity. Qed.

Lemma do_module_cfg s n k s1 r : do_module s n k = (s1, r) -> cfg_eq s s1 /\ le_truthy s s1.
Proof.
  unfold do_module. destruct (is_table (loaded s n)).
  - destruct k; simpl; intros E; inversion E; subst; (split; [repeat split; reflexivity|intros m Hm; exact Hm]).
  - destruct (find_table_global s n) as [s' [t|]] eqn:Ef.
    + destruct (find_table_cfg _ _ _ _ Ef) as (C & HL). pose proof (find_table_is_table _ _ _ _ Ef) as Ht.
      assert (le_truthy s (set_loaded s' n t)).
      { intros m Hm. destruct (Z.eq_dec m n) as [->|Hne];
          [rewrite loaded_set_same; now apply table_truthy|rewrite loaded_set_other by assumption; now rewrite HL]. }
      destruct k; simpl; intros E; inversion E; subst; (split; [exact C|assumption]).
    + destruct (find_table_cfg _ _ _ _ Ef) as (C & HL). simpl. intros E; inversion E; subst.
      split; [exact C|]. intros m Hm. now rewrite HL.
Qed.

Lemma run_script_noreq req self id k : forall sc s,
  existsb is_req sc = false -> snd (run_script req self id k sc s) <> OutOfFuel.
Proof.
  induction sc as [|a sc IH]; intros s H; simpl in *; [discriminate|].
  destruct a; simpl in H; try discriminate; try (now apply IH).
  destruct (do_module s self k) as [s1 [e|]]; simpl; [discriminate|now apply IH].
Qed.

Section FuelBound.
  Variable ns : list name.
  Variable f : nat.
  Hypothesis IHf : forall s n, state_guarded s -> loadable_in s ns -> (unloaded s ns < f)%nat ->
                               snd (require f s n) <> OutOfFuel.

  Lemma run_script_no_oof self id k : forall sc s,
    guarded sc = true -> state_guarded s -> loadable_in s ns -> (unloaded s ns < f)%nat ->
    truthy (loaded s self) = true ->
    snd (run_script (require f) self id k sc s) <> OutOfFuel.
  Proof.
    induction sc as [|a sc IH]; intros s G SG HL HU HT; simpl; [discriminate|].
    destruct a; simpl in G; try discriminate.
    - destruct (require f s m) as [s1 res] eqn:Er.
      pose proof (IHf s m SG HL HU) as Hn. rewrite Er in Hn. simpl in Hn.
      pose proof (require_stable _ _ _ _ _ Er) as St.
      destruct res; simpl; try congruence.
      apply IH; auto.
      + eapply state_guarded_cfg; [apply St|assumption].
      + eapply loadable_in_cfg; [apply St|assumption].
      + pose proof (unloaded_le s s1 ns (stable_le_truthy _ _ St)). lia.
      + now apply (stable_le_truthy _ _ St).
    - destruct (require f s m) as [s1 res] eqn:Er.
      pose proof (IHf s m SG HL HU) as Hn. rewrite Er in Hn. simpl in Hn.
      pose proof (require_stable _ _ _ _ _ Er) as St.
      assert (snd (run_script (require f) self id k sc s1) <> OutOfFuel).
      { apply IH; auto.
        + eapply state_guarded_cfg; [apply St|assumption].
        + eapply loadable_in_cfg; [apply St|assumption].
        + pose proof (unloaded_le s s1 ns (stable_le_truthy _ _ St)). lia.
        + now apply (stable_le_truthy _ _ St). }
      destruct res; simpl; congruence.
    - apply andb_prop in G. destruct G as (G1 & G2). apply orb_prop in G1. destruct G1 as [G1|G1].
      + assert (Hv : truthy (eval id e) = true) by (destruct e; simpl in *; congruence).
        apply IH; auto.
        * pose proof (unloaded_le s _ ns (le_truthy_set s self _ Hv)). lia.
        * now rewrite loaded_set_same.
      + apply run_script_noreq. now apply negb_true_iff in G1.
    - destruct (do_module s self k) as [s1 [e|]] eqn:Em; simpl; [discriminate|].
      destruct (do_module_cfg _ _ _ _ _ Em) as (C & LT).
      apply IH; auto.
      + eapply state_guarded_cfg; eauto.
      + eapply loadable_in_cfg; eauto.
      + pose proof (unloaded_le s s1 ns LT). lia.
  Qed.
End FuelBound.

Lemma require_fuel_bound_lemma ns : forall f s n,
  state_guarded s -> loadable_in s ns -> (unloaded s ns < f)%nat ->
  snd (require f s n) <> OutOfFuel.
Proof.
  induction f as [|f IH]; intros s n SG HL HU; [lia|].
  rewrite require_S. cbv zeta. destruct (truthy (loaded s n)) eqn:Ht.
  - destruct (is_sent (loaded s n)); simpl; discriminate.
  - destruct (search loLoaders s n []) as [e|[[o k] sc]] eqn:Es; [simpl; discriminate|].
    destruct (search_found_guarded _ _ _ _ _ _ SG HL Es) as (Hin & Gsc).
    set (s1 := set_loaded s n VSent).
    pose proof (unloaded_dec s n VSent ns Hin Ht eq_refl) as Hd. fold s1 in Hd.
    assert (Hno : snd (run_script (require f) n (next s1) k sc (enter s1 n o)) <> OutOfFuel).
    { apply (run_script_no_oof ns f IH); [exact Gsc| | | |].
      - eapply state_guarded_cfg; [|exact SG]. repeat split; reflexivity.
      - eapply loadable_in_cfg; [|exact HL]. repeat split; reflexivity.
      - rewrite (unloaded_ext s1 (enter s1 n o) ns eq_refl). lia.
      - simpl. now rewrite upd_same. }
    destruct (run_script (require f) n (next s1) k sc (enter s1 n o)) as [s3 r3]. simpl in Hno.
    destruct r3; simpl; try congruence.
    unfold finish. destruct (is_sent _); simpl; discriminate.
Qed.

Corollary require_fuel_modules_lemma ns s n :
  state_guarded s -> loadable_in s ns -> snd (require (S (length ns)) s n) <> OutOfFuel.
Proof.
  intros SG HL. apply (require_fuel_bound_lemma ns); auto. pose proof (unloaded_bound s ns). lia.
Qed.

(* ------------------------------------------------------------------ *)
(* refinement: loRequire (after the fix) is ll_require; RegisterModule is luaI_openlib *)

Lemma finish_is_51 s n ret : finish s n ret = finish51 s n ret.
Proof.
  unfold finish, finish51. destruct ret; simpl;
    match goal with |- context [is_sent ?v] => destruct v; reflexivity end.
Qed.

Lemma run_script_ext req1 req2 self id k :
  (forall s m, req1 s m = req2 s m) ->
  forall sc s, run_script req1 self id k sc s = run_script req2 self id k sc s.
Proof.
  intros H. induction sc as [|a sc IH]; intros s; simpl; [reflexivity|].
  destruct a; try reflexivity; try apply IH.
  - rewrite H. destruct (req2 s m) as [s1 []]; auto.
  - rewrite H. destruct (req2 s m) as [s1 []]; auto.
  - destruct (do_module s self k) as [s1 [e|]]; auto.
Qed.

Lemma require_refines_51_lemma : forall f s n, require f s n = require51 f s n.
Proof.
  induction f as [|f IH]; intros s n; [reflexivity|].
  unfold require, require51 in *. rewrite !require_gen_S. cbv zeta.
  destruct (truthy (loaded s n)); [reflexivity|].
  destruct (search loLoaders s n []) as [e|[[o k] sc]]; [reflexivity|].
  rewrite (run_script_ext _ _ n _ k IH).
  destruct (run_script _ _ _ _ _ _) as [s3 [ret| |]]; auto. apply finish_is_51.
Qed.

Lemma register_refines_51_lemma s n fs : register s n fs = register51 s n fs.
Proof.
  unfold register, register51. destruct (is_table (loaded s n)); [reflexivity|].
  destruct (find_table_global s n) as [s1 [t|]]; reflexivity.
Qed.

Lemma run_refines_51_lemma fuel : forall h s, run fuel s h = run51 fuel s h.
Proof.
  induction h as [|o h IH]; intros s; [reflexivity|].
  unfold run, run51 in *. simpl.
  assert (E : step_gen require register fuel s o = step_gen require51 register51 fuel s o).
  { destruct o; simpl; try reflexivity.
    - now rewrite require_refines_51_lemma.
    - now rewrite register_refines_51_lemma. }
  rewrite E. destruct (step_gen require51 register51 fuel s o) as [s1 ob]. now rewrite IH.
Qed.

(* ------------------------------------------------------------------ *)
(* log bookkeeping *)

Lemma count_log_app n l1 l2 : count_log n (l1 ++ l2) = (count_log n l1 + count_log n l2)%nat.
Proof. unfold count_log. now rewrite filter_app, app_length. Qed.

Lemma count_log_none n l : (forall m o, In (m, o) l -> m <> n) -> count_log n l = O.
Proof.
  unfold count_log. induction l as [|[m o] l IH]; intros H; simpl; [reflexivity|].
  destruct (m =? n) eqn:E.
  - apply Z.eqb_eq in E. exfalso. apply (H m o); [now left|assumption].
  - apply IH. intros m' o' Hin. apply (H m' o'). now right.
Qed.

Lemma stable_count_log s s' n :
  stable s s' -> truthy (loaded s n) = true -> count_log n (log s') = count_log n (log s).
Proof.
  intros (_ & _ & _ & _ & (l & E & I)) Ht. rewrite E, count_log_app, count_log_none; [reflexivity|].
  intros m o Hin. destruct (I m o Hin) as (F & _). intros ->. congruence.
Qed.

Lemma newlog_app s s' l : log s' = l ++ log s -> newlog s s' = rev l.
Proof.
  intros E. unfold newlog. rewrite E, app_length.
  replace (length l + length (log s) - length (log s))%nat with (length l) by lia.
  now rewrite firstn_app, Nat.sub_diag, firstn_all, app_nil_r.
Qed.

(* ------------------------------------------------------------------ *)
(* the host operations *)

Lemma find_table_frame s n s1 r :
  find_table_global s n = (s1, r) ->
  cfg_eq s s1 /\ loaded s1 = loaded s /\ log s1 = log s /\ tfuncs s1 = tfuncs s /\
  match r with
  | Some t => is_table t = true /\ globals s1 n = t
  | None => is_table (globals s n) = false /\ globals s n <> VNil /\ s1 = s
  end.
Proof.
  unfold find_table_global. destruct (globals s n) eqn:G; intros E; inversion E; subst;
    repeat split; try reflexivity; try congruence; simpl; try apply upd_same; try assumption.
Qed.

Lemma register_effects s n fs s' r :
  register s n fs = (s', r) ->
  cfg_eq s s' /\ log s' = log s /\
  (forall m, m <> n -> loaded s' m = loaded s m) /\
  (is_table (loaded s n) = true -> loaded s' n = loaded s n) /\
  (truthy (loaded s n) = true -> truthy (loaded s' n) = true).
Proof.
  unfold register. destruct (is_table (loaded s n)) eqn:Et.
  - intros E; inversion E; subst. repeat split; auto.
  - destruct (find_table_global s n) as [s1 [t|]] eqn:Ef;
      destruct (find_table_frame _ _ _ _ Ef) as (C & HL & Hlog & _ & Hr); intros E; inversion E; subst.
    + split; [exact C|]. split; [exact Hlog|]. split; [|split].
      * intros m Hm. simpl. rewrite upd_other by assumption. now rewrite HL.
      * discriminate.
      * intros _. simpl. rewrite upd_same. apply table_truthy, Hr.
    + split; [exact C|]. split; [exact Hlog|]. rewrite HL. repeat split; auto.
Qed.

Lemma has_func_add s t fs f : In f fs -> has_func (add_funcs s t fs) t f = true.
Proof.
  intros Hin. unfold has_func, add_funcs. simpl. apply existsb_exists. exists (t, f). split.
  - apply in_or_app. left. apply in_map_iff. now exists f.
  - simpl. unfold pair_eqb. now rewrite !Z.eqb_refl.
Qed.

(* RegisterModule: the table is in package.loaded and (when newly made) in the global; every
   function given is in it; require finds it without running anything *)
Lemma host_modules_reachable_lemma s n fs s' t :
  register s n fs = (s', Ok t) ->
  is_table t = true /\ loaded s' n = t /\
  (is_table (loaded s n) = false -> globals s' n = t) /\
  (forall f, In f fs -> has_func s' (tab_id t) f = true) /\
  (forall fuel, require (S fuel) s' n = (s', Ok t)).
Proof.
  unfold register. intros E.
  assert (H : is_table t = true /\ loaded s' n = t /\
              (is_table (loaded s n) = false -> globals s' n = t) /\
              (forall f, In f fs -> has_func s' (tab_id t) f = true)).
  { destruct (is_table (loaded s n)) eqn:Et.
    - inversion E; subst. repeat split; auto; [discriminate|]. intros f Hf. now apply has_func_add.
    - destruct (find_table_global s n) as [s1 [t1|]] eqn:Ef; inversion E; subst.
      destruct (find_table_frame _ _ _ _ Ef) as (_ & _ & _ & _ & (Ht & Hg)).
      repeat split; auto.
      + simpl. apply upd_same.
      + intros f Hf. now apply has_func_add. }
  destruct H as (Ht & Hl & Hg & Hf). repeat split; auto.
  intros fuel. rewrite require_S. cbv zeta. rewrite Hl, (table_truthy _ Ht).
  destruct t; simpl in Ht; try discriminate. reflexivity.
Qed.

(* the two ways RegisterModule can fail to make a new table: only a non-table global in the way *)
Lemma register_conflict_lemma s n fs s' e :
  register s n fs = (s', Err e) ->
  e = EConflict n /\ s' = s /\ is_table (loaded s n) = false /\
  is_table (globals s n) = false /\ globals s n <> VNil.
Proof.
  unfold register. destruct (is_table (loaded s n)) eqn:Et; [intros E; inversion E|].
  destruct (find_table_global s n) as [s1 [t|]] eqn:Ef; intros E; inversion E; subst.
  destruct (find_table_frame _ _ _ _ Ef) as (_ & _ & _ & _ & (H1 & H2 & H3)). subst. repeat split; auto.
Qed.

Lemma step_effects fuel s o s' ob n :
  step fuel s o = (s', ob) -> truthy (loaded s n) = true -> keeps_loaded n o ->
  truthy (loaded s' n) = true /\ count_log n (log s') = count_log n (log s) /\
  (keeps_value n (loaded s n) o -> loaded s' n = loaded s n).
Proof.
  unfold step, keeps_loaded, keeps_value. intros E Ht Hk. destruct o; simpl in E.
  - destruct (require fuel s n0) as [s1 r] eqn:Er. inversion E; subst.
    pose proof (require_stable _ _ _ _ _ Er) as St.
    pose proof (stable_count_log _ _ _ St Ht) as Hc.
    destruct St as (C & T & N & L & Lg).
    rewrite (L n Ht). split; [assumption|]. split; [exact Hc|reflexivity].
  - inversion E; subst. auto.
  - inversion E; subst. auto.
  - inversion E; subst. auto.
  - inversion E; subst. assert (n <> n0) by congruence.
    rewrite loaded_set_other by assumption. auto.
  - destruct e; inversion E; subst; auto.
  - inversion E; subst. auto.
  - inversion E; subst. auto.
  - destruct (register s n0 fs) as [s1 r] eqn:Er. inversion E; subst.
    destruct (register_effects _ _ _ _ _ Er) as (_ & Hlog & Ho & Hs & Htr).
    rewrite Hlog. destruct (Z.eq_dec n n0) as [->|Hne].
    + split; [auto|]. split; [reflexivity|]. intros (_ & Hv).
      destruct (is_table (loaded s n0)) eqn:Et; [auto|]. exfalso. apply (Hv eq_refl fs). reflexivity.
    + rewrite (Ho n Hne). auto.
  - inversion E; subst. simpl. auto.
Qed.

Lemma run_cons fuel s o h :
  run fuel s (o :: h) =
  let '(s1, ob) := step fuel s o in let '(s2, obs) := run fuel s1 h in (s2, ob :: obs).
Proof. reflexivity. Qed.

(* loader_once / cached: along any history that does not clear package.loaded[n] *)
Lemma loaded_history_lemma fuel : forall h s n,
  truthy (loaded s n) = true -> Forall (keeps_loaded n) h ->
  let s' := fst (run fuel s h) in
  truthy (loaded s' n) = true /\ count_log n (log s') = count_log n (log s) /\
  (Forall (keeps_value n (loaded s n)) h -> loaded s' n = loaded s n).
Proof.
  induction h as [|o h IH]; intros s n Ht Hk; [simpl; auto|].
  rewrite run_cons. destruct (step fuel s o) as [s1 ob] eqn:Es.
  inversion Hk as [|? ? Hk1 Hk2]; subst.
  destruct (step_effects _ _ _ _ _ _ Es Ht Hk1) as (Ht1 & Hc1 & Hv1).
  specialize (IH s1 n Ht1 Hk2). destruct (run fuel s1 h) as [s2 obs]. simpl in *.
  destruct IH as (Ht2 & Hc2 & Hv2). split; [assumption|]. split; [congruence|].
  intros Hkv. inversion Hkv as [|? ? Hkv1 Hkv2]; subst.
  specialize (Hv1 Hkv1). rewrite <- Hv1. apply Hv2. now rewrite Hv1.
Qed.

Lemma loader_once_while_succeeds_lemma f s n s1 v fuel h :
  require f s n = (s1, Ok v) -> truthy v = true -> Forall (keeps_loaded n) h ->
  count_log n (log (fst (run fuel s1 h))) = count_log n (log s1).
Proof.
  intros E Hv Hk. destruct (require_ok_loaded_lemma _ _ _ _ _ E) as (Hl & _).
  apply (loaded_history_lemma fuel h s1 n); [now rewrite Hl|assumption].
Qed.

Lemma cached_identical_lemma f s n s1 v fuel h f' :
  require f s n = (s1, Ok v) -> truthy v = true -> Forall (keeps_value n v) h ->
  let s2 := fst (run fuel s1 h) in require (S f') s2 n = (s2, Ok v).
Proof.
  intros E Hv Hk. destruct (require_ok_loaded_lemma _ _ _ _ _ E) as (Hl & Hns).
  assert (Hk' : Forall (keeps_loaded n) h) by (eapply Forall_impl; [|exact Hk]; intros o (H & _); exact H).
  destruct (loaded_history_lemma fuel h s1 n) as (_ & _ & H3); [now rewrite Hl|assumption|].
  rewrite Hl in H3. specialize (H3 Hk). cbv zeta in *. rewrite require_S. cbv zeta. rewrite H3, Hv.
  destruct v; simpl in *; congruence.
Qed.

(* ------------------------------------------------------------------ *)
(* while a module is loading: its own package.loaded entry and the log *)

Definition log_ext (s s' : state) : Prop := exists l, log s' = l ++ log s.

Lemma log_ext_refl s : log_ext s s.
Proof. now exists []. Qed.

Lemma log_ext_trans s1 s2 s3 : log_ext s1 s2 -> log_ext s2 s3 -> log_ext s1 s3.
Proof. intros (l1 & E1) (l2 & E2). exists (l2 ++ l1). now rewrite E2, E1, app_assoc. Qed.

Lemma stable_log_ext s s' : stable s s' -> log_ext s s'.
Proof. intros (_ & _ & _ & _ & (l & E & _)). now exists l. Qed.

Lemma do_module_log s n k s1 r : do_module s n k = (s1, r) -> log s1 = log s.
Proof.
  unfold do_module. destruct (is_table (loaded s n)).
  - destruct k; simpl; intros E; inversion E; now subst.
  - destruct (find_table_global s n) as [s' [t|]] eqn:Ef;
      destruct (find_table_frame _ _ _ _ Ef) as (_ & _ & Hlog & _).
    + destruct k; simpl; intros E; inversion E; now subst.
    + simpl. intros E; inversion E; now subst.
Qed.

Section WhileLoading.
  Variable req : state -> name -> state * result.
  Hypothesis req_stable : forall s m s' r, req s m = (s', r) -> stable s s'.

  Lemma run_script_log_ext self id k : forall sc s s' r,
    run_script req self id k sc s = (s', r) -> log_ext s s'.
  Proof.
    induction sc as [|a sc IH]; intros s s' r E; simpl in E; [inversion E; apply log_ext_refl|].
    destruct a; try (inversion E; apply log_ext_refl).
    - destruct (req s m) as [s1 res] eqn:Er. pose proof (stable_log_ext _ _ (req_stable _ _ _ _ Er)) as H1.
      destruct res; try (inversion E; now subst). eapply log_ext_trans; eauto.
    - destruct (req s m) as [s1 res] eqn:Er. pose proof (stable_log_ext _ _ (req_stable _ _ _ _ Er)) as H1.
      destruct res; try (inversion E; now subst); eapply log_ext_trans; eauto.
    - apply (IH _ _ _ E).
    - destruct (do_module s self k) as [s1 [e|]] eqn:Em; pose proof (do_module_log _ _ _ _ _ Em) as Hl.
      + inversion E; subst. exists []. now rewrite Hl.
      + destruct (IH _ _ _ E) as (l & El). exists l. now rewrite El, Hl.
  Qed.

  (* a loader that never assigns package.loaded[self] (no SetLoaded, no module()) keeps whatever
     truthy value is there -- in particular the sentinel -- through all nested loads *)
  Lemma run_script_keeps_self self id k : forall sc s s' r,
    existsb touches_loaded sc = false -> truthy (loaded s self) = true ->
    run_script req self id k sc s = (s', r) -> loaded s' self = loaded s self.
  Proof.
    induction sc as [|a sc IH]; intros s s' r Hn Ht E; simpl in E; [inversion E; now subst|].
    destruct a; simpl in Hn; try discriminate; try (inversion E; now subst).
    - destruct (req s m) as [s1 res] eqn:Er.
      destruct (req_stable _ _ _ _ Er) as (_ & _ & _ & L & _). pose proof (L self Ht) as Hs.
      destruct res; try (inversion E; now subst).
      rewrite <- Hs. eapply IH; eauto. now rewrite Hs.
    - destruct (req s m) as [s1 res] eqn:Er.
      destruct (req_stable _ _ _ _ Er) as (_ & _ & _ & L & _). pose proof (L self Ht) as Hs.
      destruct res; try (inversion E; now subst); rewrite <- Hs; eapply IH; eauto; now rewrite Hs.
  Qed.
End WhileLoading.

(* ------------------------------------------------------------------ *)
(* preload first *)

Lemma preload_first_lemma f s n l s' r :
  preload s n = Some l -> truthy (loaded s n) = false -> require (S f) s n = (s', r) ->
  exists l', log s' = l' ++ (n, OPre) :: log s.
Proof.
  intros Hp Ht. rewrite require_S. cbv zeta. rewrite Ht, (search_preload _ _ _ Hp).
  destruct (run_script (require f) n _ (lk l) (lscript l) _) as [s3 r3] eqn:Er.
  destruct (run_script_log_ext _ (require_stable f) _ _ _ _ _ _ _ Er) as (l' & El). simpl in El.
  assert (Hfin : forall ret s4 r4, finish s3 n ret = (s4, r4) -> log s4 = log s3).
  { intros ret s4 r4. unfold finish. destruct (is_nil ret); destruct (is_sent _); intros E; inversion E; reflexivity. }
  destruct r3; intros E.
  - exists l'. now rewrite (Hfin _ _ _ E).
  - inversion E; subst. now exists l'.
  - inversion E; subst. now exists l'.
Qed.

(* every loader invoked anywhere inside a require call, for a module that has a preload entry, is
   that preload entry -- never a file *)
Lemma preload_first_everywhere_lemma f s n s' r m o :
  require f s n = (s', r) -> In (m, o) (newlog s s') -> preload s m <> None -> o = OPre.
Proof.
  intros E Hin Hp. destruct (require_stable _ _ _ _ _ E) as (_ & _ & _ & _ & (l & El & I)).
  rewrite (newlog_app _ _ _ El) in Hin. apply in_rev in Hin.
  destruct (I m o Hin) as (_ & k & sc & Hs).
  destruct (preload s m) as [ld|] eqn:Hpm; [|congruence].
  rewrite (search_preload _ _ _ Hpm) in Hs. now inversion Hs.
Qed.

(* a module without a preload entry is loaded from the first directory of package.path having it *)
Lemma path_order_lemma f s n s' r m o :
  require f s n = (s', r) -> In (m, o) (newlog s s') -> preload s m = None ->
  exists d sc, o = OFile d /\ loFindFile (files s) m (path s) [] = inl (d, FScript sc).
Proof.
  intros E Hin Hp. destruct (require_stable _ _ _ _ _ E) as (_ & _ & _ & _ & (l & El & I)).
  rewrite (newlog_app _ _ _ El) in Hin. apply in_rev in Hin.
  destruct (I m o Hin) as (_ & k & sc & Hs).
  destruct (search_found _ _ _ _ _ Hs) as [(ld & Hq & _)|(_ & d & Ho & _ & Hf)]; [congruence|].
  now exists d, sc.
Qed.

(* ------------------------------------------------------------------ *)
(* loops *)

Lemma loop_error_when_loading_lemma f s n :
  loaded s n = VSent -> require (S f) s n = (s, Err (ELoop n)).
Proof. intros H. rewrite require_S. cbv zeta. now rewrite H. Qed.

Lemma links_cfg s s' ns last : cfg_eq s s' -> links s ns last -> links s' ns last.
Proof.
  intros C. induction ns as [|n r IH]; cbn [links]; [auto|]. intros ((t & o & k & rest & Hs) & Hl).
  split; [|auto]. exists t, o, k, rest. now rewrite (search_cfg s s' n C).
Qed.

Lemma cfg_eq_enter s n o : cfg_eq s (enter (set_loaded s n VSent) n o).
Proof. repeat split; reflexivity. Qed.

(* a chain r = [n1; ...; nk] of unloaded modules each starting with `require <next>`, the last one
   requiring n0 which is being loaded: every one of them ends with the sentinel and the error is
   the loop error on n0 *)
Lemma chain_loop n0 : forall r f s,
  r <> [] -> NoDup r -> ~ In n0 r -> links s r n0 ->
  (forall m, In m r -> truthy (loaded s m) = false) -> loaded s n0 = VSent ->
  (length r < f)%nat ->
  exists s', require f s (hd n0 r) = (s', Err (ELoop n0)) /\
             (forall m, In m r -> loaded s' m = VSent) /\
             (forall m, ~ In m r -> loaded s' m = loaded s m) /\ cfg_eq s s'.
Proof.
  induction r as [|n r IH]; intros f s Hne Hnd Hn0 Hl Hf H0 Hlen; [congruence|].
  destruct f as [|f]; [simpl in Hlen; lia|]. simpl hd.
  destruct Hl as ((t & o & k & rest & Hs) & Hl).
  rewrite require_S. cbv zeta. rewrite (Hf n (or_introl eq_refl)), Hs.
  set (s2 := enter (set_loaded s n VSent) n o).
  assert (Hn0n : n0 <> n) by (intros ->; apply Hn0; now left).
  inversion Hnd as [|? ? Hnin Hnd']; subst.
  destruct r as [|n' r'].
  - (* the last link: requires n0 *)
    simpl hd. cbn [run_script].
    destruct f as [|f]; [simpl in Hlen; lia|].
    assert (E0 : require (S f) s2 n0 = (s2, Err (ELoop n0))).
    { apply loop_error_when_loading_lemma. simpl. now rewrite upd_other. }
    rewrite E0. exists s2. split; [reflexivity|]. split; [|split].
    + intros m [<-|[]]. simpl. apply upd_same.
    + intros m Hm. simpl. apply upd_other. intros ->. apply Hm. now left.
    + apply cfg_eq_enter.
  - cbn [run_script]. simpl hd.
    destruct (IH f s2) as (s' & E & Hin & Hout & C).
    + discriminate.
    + assumption.
    + intros H. apply Hn0. now right.
    + eapply links_cfg; [apply cfg_eq_enter|exact Hl].
    + intros m Hm. simpl. rewrite upd_other; [apply Hf; now right|]. intros ->. contradiction.
    + simpl. now rewrite upd_other.
    + simpl in Hlen |- *. lia.
    + simpl hd in E. rewrite E. exists s'. split; [reflexivity|]. split; [|split].
      * intros m [<-|Hm]; [|now apply Hin]. rewrite (Hout n Hnin). simpl. apply upd_same.
      * intros m Hm. rewrite Hout by (intros H; apply Hm; now right).
        simpl. apply upd_other. intros ->. apply Hm. now left.
      * destruct C as (a & b & c). repeat split; assumption.
Qed.

Lemma self_require_is_loop_error_lemma s n0 r f :
  NoDup (n0 :: r) -> links s (n0 :: r) n0 ->
  (forall m, In m (n0 :: r) -> truthy (loaded s m) = false) ->
  (length (n0 :: r) < f)%nat ->
  exists s', require f s n0 = (s', Err (ELoop n0)) /\
             (forall m, In m (n0 :: r) -> loaded s' m = VSent) /\
             (forall m, ~ In m (n0 :: r) -> loaded s' m = loaded s m).
Proof.
  intros Hnd Hl Hf Hlen. destruct f as [|f]; [simpl in Hlen; lia|].
  destruct Hl as ((t & o & k & rest & Hs) & Hl).
  rewrite require_S. cbv zeta. rewrite (Hf n0 (or_introl eq_refl)), Hs.
  set (s2 := enter (set_loaded s n0 VSent) n0 o).
  inversion Hnd as [|? ? Hnin Hnd']; subst.
  assert (H0 : loaded s2 n0 = VSent) by (simpl; apply upd_same).
  destruct r as [|n' r'].
  - simpl hd. cbn [run_script]. destruct f as [|f]; [simpl in Hlen; lia|].
    rewrite (loop_error_when_loading_lemma f s2 n0 H0). exists s2. split; [reflexivity|]. split.
    + intros m [<-|[]]. exact H0.
    + intros m Hm. simpl. apply upd_other. intros ->. apply Hm. now left.
  - cbn [run_script].
    destruct (chain_loop n0 (n' :: r') f s2) as (s' & E & Hin & Hout & C).
    + discriminate.
    + assumption.
    + assumption.
    + eapply links_cfg; [apply cfg_eq_enter|exact Hl].
    + intros m Hm. simpl. rewrite upd_other; [apply Hf; now right|]. intros ->. contradiction.
    + exact H0.
    + simpl in Hlen |- *. lia.
    + rewrite E. exists s'. split; [reflexivity|]. split.
      * intros m [<-|Hm]; [|now apply Hin]. now rewrite (Hout n0 Hnin).
      * intros m Hm. rewrite Hout by (intros H; apply Hm; now right).
        simpl. apply upd_other. intros ->. apply Hm. now left.
Qed.

(* ------------------------------------------------------------------ *)
(* failures *)

Lemma failure_leaves_sentinel_now_lemma f s n o k sc s' e :
  truthy (loaded s n) = false -> search loLoaders s n [] = inr (o, k, sc) ->
  existsb touches_loaded sc = false ->
  require (S f) s n = (s', Err e) -> loaded s' n = VSent.
Proof.
  intros Ht Hs Hn. rewrite require_S. cbv zeta. rewrite Ht, Hs.
  destruct (run_script (require f) n _ k sc _) as [s3 r3] eqn:Er.
  assert (Hts : truthy (loaded (enter (set_loaded s n VSent) n o) n) = true)
    by (simpl; now rewrite upd_same).
  pose proof (run_script_keeps_self _ (require_stable f) _ _ _ _ _ _ _ Hn Hts Er) as Hk.
  destruct r3; intros E.
  - destruct (finish_ok _ _ _ _ _ E) as (v' & Hv' & _). congruence.
  - inversion E; subst. rewrite Hk. simpl. apply upd_same.
  - inversion E.
Qed.

Lemma failure_leaves_sentinel_lemma f s n o k sc s1 e fuel h f' :
  truthy (loaded s n) = false -> search loLoaders s n [] = inr (o, k, sc) ->
  existsb touches_loaded sc = false ->
  require (S f) s n = (s1, Err e) ->
  Forall (keeps_value n VSent) h ->
  let s2 := fst (run fuel s1 h) in
  loaded s2 n = VSent /\ require (S f') s2 n = (s2, Err (ELoop n)) /\
  count_log n (log s2) = count_log n (log s1).
Proof.
  intros Ht Hs Hn E Hk. pose proof (failure_leaves_sentinel_now_lemma _ _ _ _ _ _ _ _ Ht Hs Hn E) as H1.
  assert (Hk' : Forall (keeps_loaded n) h) by (eapply Forall_impl; [|exact Hk]; intros x (H & _); exact H).
  destruct (loaded_history_lemma fuel h s1 n) as (_ & Hc & H3); [now rewrite H1|assumption|].
  rewrite H1 in H3. specialize (H3 Hk). cbv zeta in *. split; [assumption|]. split; [|assumption].
  now apply loop_error_when_loading_lemma.
Qed.

(* ------------------------------------------------------------------ *)
(* fuel along histories *)

Lemma search_set_preload_guarded s ns n l :
  state_guarded s -> loadable_in s ns -> op_ok ns (HSetPreload n l) ->
  state_guarded (set_preload s n l) /\ loadable_in (set_preload s n l) ns.
Proof.
  intros (G1 & G2) HL Hok. split.
  - split; [|exact G2]. intros m l' Hm. simpl in Hm. unfold upd in Hm.
    destruct (m =? n); [|eapply G1; eauto]. subst. simpl in Hok. now destruct Hok.
  - intros m [Hm|Hm]; [|apply HL; now right]. simpl in Hm. unfold upd in Hm.
    destruct (m =? n) eqn:E; [|apply HL; now left]. apply Z.eqb_eq in E. subst.
    destruct l; [simpl in Hok; now destruct Hok|congruence].
Qed.

Lemma search_set_file_guarded s ns d n c :
  state_guarded s -> loadable_in s ns -> op_ok ns (HSetFile d n c) ->
  state_guarded (set_file s d n c) /\ loadable_in (set_file s d n c) ns.
Proof.
  intros (G1 & G2) HL Hok. split.
  - split; [exact G1|]. intros d' m c' Hm. simpl in Hm.
    destruct (d' =? d); [|eapply G2; eauto]. unfold upd in Hm.
    destruct (m =? n); [|eapply G2; eauto]. subst. simpl in Hok. now destruct Hok.
  - intros m [Hm|(d' & Hm)]; [apply HL; now left|]. simpl in Hm.
    destruct (d' =? d); [|apply HL; right; now exists d']. unfold upd in Hm.
    destruct (m =? n) eqn:E; [|apply HL; right; now exists d]. apply Z.eqb_eq in E. subst.
    destruct c; [simpl in Hok; now destruct Hok|congruence].
Qed.

Lemma new_preload_guarded s ns keep :
  state_guarded s -> loadable_in s ns ->
  state_guarded (new_preload s keep) /\ loadable_in (new_preload s keep) ns.
Proof.
  intros (G1 & G2) HL. split; [split|].
  - intros n l. simpl. destruct (memz n keep); [apply G1|discriminate].
  - exact G2.
  - intros n [Hn|Hn]; apply HL; [left|right; exact Hn].
    simpl in Hn. destruct (memz n keep); [exact Hn|congruence].
Qed.

Lemma step_guarded fuel s ns o s' ob :
  state_guarded s -> loadable_in s ns -> op_ok ns o -> step fuel s o = (s', ob) ->
  state_guarded s' /\ loadable_in s' ns.
Proof.
  intros SG HL Hok E. unfold step in E. destruct o; simpl in E.
  - destruct (require fuel s n) as [s1 r] eqn:Er. inversion E; subst.
    pose proof (require_stable _ _ _ _ _ Er) as (C & _).
    split; [eapply state_guarded_cfg|eapply loadable_in_cfg]; eauto.
  - inversion E; subst. now apply search_set_preload_guarded.
  - inversion E; subst. now apply search_set_file_guarded.
  - inversion E; subst. split; [exact SG|exact HL].
  - inversion E; subst. split; [exact SG|exact HL].
  - destruct e; inversion E; subst; (split; [exact SG|exact HL]).
  - inversion E; subst. auto.
  - inversion E; subst. auto.
  - destruct (register s n fs) as [s1 r] eqn:Er. inversion E; subst.
    destruct (register_effects _ _ _ _ _ Er) as (C & _).
    split; [eapply state_guarded_cfg|eapply loadable_in_cfg]; eauto.
  - inversion E; subst. now apply new_preload_guarded.
Qed.

Lemma run_never_out_of_fuel_lemma ns fuel : (length ns < fuel)%nat -> forall h s,
  state_guarded s -> loadable_in s ns -> Forall (op_ok ns) h ->
  ~ In OFuel (snd (run fuel s h)).
Proof.
  intros Hfuel. induction h as [|o h IH]; intros s SG HL Hok; [simpl; auto|].
  rewrite run_cons. destruct (step fuel s o) as [s1 ob] eqn:Es.
  inversion Hok as [|? ? Hok1 Hok2]; subst.
  destruct (step_guarded _ _ _ _ _ _ SG HL Hok1 Es) as (SG1 & HL1).
  specialize (IH s1 SG1 HL1 Hok2). destruct (run fuel s1 h) as [s2 obs]. simpl in *.
  intros [Hob|Hin]; [|contradiction]. subst ob.
  unfold step in Es. destruct o; simpl in Es; try (inversion Es; fail).
  - destruct (require fuel s n) as [s' r] eqn:Er.
    assert (Hno : snd (require fuel s n) <> OutOfFuel).
    { apply (require_fuel_bound_lemma ns); auto. pose proof (unloaded_bound s ns). lia. }
    rewrite Er in Hno. simpl in Hno. destruct r; inversion Es. congruence.
  - destruct e; inversion Es.
  - destruct (register s n fs); inversion Es.
Qed.

(* ------------------------------------------------------------------ *)
(* one load = one invocation (guarded loaders) *)

Lemma run_script_noreq_log req self id k : forall sc s,
  existsb is_req sc = false -> log (fst (run_script req self id k sc s)) = log s.
Proof.
  induction sc as [|a sc IH]; intros s H; simpl in *; [reflexivity|].
  destruct a; simpl in H; try discriminate; try reflexivity.
  - now rewrite IH.
  - destruct (do_module s self k) as [s1 [e|]] eqn:Em; pose proof (do_module_log _ _ _ _ _ Em) as Hl; simpl.
    + assumption.
    + now rewrite IH.
Qed.

Lemma run_script_once f self id k : forall sc s,
  guarded sc = true -> truthy (loaded s self) = true ->
  count_log self (log (fst (run_script (require f) self id k sc s))) = count_log self (log s).
Proof.
  induction sc as [|a sc IH]; intros s G Ht; simpl; [reflexivity|].
  destruct a; simpl in G; try reflexivity.
  - destruct (require f s m) as [s1 res] eqn:Er. pose proof (require_stable _ _ _ _ _ Er) as St.
    pose proof (stable_count_log _ _ _ St Ht) as Hc.
    destruct res; simpl; try assumption. rewrite IH; auto. now apply (stable_le_truthy _ _ St).
  - destruct (require f s m) as [s1 res] eqn:Er. pose proof (require_stable _ _ _ _ _ Er) as St.
    pose proof (stable_count_log _ _ _ St Ht) as Hc.
    assert (count_log self (log (fst (run_script (require f) self id k sc s1))) = count_log self (log s)).
    { rewrite IH; auto. now apply (stable_le_truthy _ _ St). }
    destruct res; simpl; assumption.
  - apply andb_prop in G. destruct G as (G1 & G2). apply orb_prop in G1. destruct G1 as [G1|G1].
    + rewrite IH; auto. rewrite loaded_set_same. destruct e; simpl in *; congruence.
    + rewrite run_script_noreq_log; [reflexivity|now apply negb_true_iff in G1].
  - destruct (do_module s self k) as [s1 [e|]] eqn:Em; pose proof (do_module_log _ _ _ _ _ Em) as Hl;
      destruct (do_module_cfg _ _ _ _ _ Em) as (_ & LT); simpl.
    + now rewrite Hl.
    + rewrite IH; auto. now rewrite Hl.
Qed.

Lemma loader_once_per_load_lemma f s n o k sc s' r :
  truthy (loaded s n) = false -> search loLoaders s n [] = inr (o, k, sc) -> guarded sc = true ->
  require (S f) s n = (s', r) -> count_log n (log s') = S (count_log n (log s)).
Proof.
  intros Ht Hs G. rewrite require_S. cbv zeta. rewrite Ht, Hs.
  pose proof (run_script_once f n (next (set_loaded s n VSent)) k sc (enter (set_loaded s n VSent) n o) G) as H.
  destruct (run_script (require f) n _ k sc _) as [s3 r3]. simpl fst in H.
  assert (Hc : count_log n (log s3) = S (count_log n (log s))).
  { rewrite H; [|simpl; now rewrite upd_same]. unfold count_log. simpl. now rewrite Z.eqb_refl. }
  assert (Hfin : forall ret s4 r4, finish s3 n ret = (s4, r4) -> log s4 = log s3).
  { intros ret s4 r4. unfold finish. destruct (is_nil ret); destruct (is_sent _); intros E; inversion E; reflexivity. }
  destruct r3; intros E; [now rewrite (Hfin _ _ _ E)|inversion E; now subst|inversion E; now subst].
Qed.

(* ------------------------------------------------------------------ *)
(* the two repaired defects, on the transcription of the code before the fixes *)

Definition c20_1_state : state :=
  set_preload init 0 (Some (mkLoader KLua [SetLoaded (EStr 0); Return (EStr 1)])).

Lemma require_old_refuted_lemma :
  snd (require_old 2 c20_1_state 0) = Ok (VStr 0) /\ snd (require51 2 c20_1_state 0) = Ok (VStr 1).
Proof. split; reflexivity. Qed.

Lemma register_old_refuted_lemma :
  let s1 := fst (register_old init 3 [1]) in
  funcs_of (fst (register_old s1 3 [2])) (snd (register_old s1 3 [2])) = [1] /\
  let s1' := fst (register51 init 3 [1]) in
  funcs_of (fst (register51 s1' 3 [2])) (snd (register51 s1' 3 [2])) = [1; 2].
Proof. split; reflexivity. Qed.

(* ------------------------------------------------------------------ *)
(* what require makes of the loader's result, stated on require itself *)

Lemma eval_not_sent id e : eval id e <> VSent.
Proof. destruct e; discriminate. Qed.

Lemma run_script_ret_not_sent req self id k : forall sc s s' v,
  run_script req self id k sc s = (s', Ok v) -> v <> VSent.
Proof.
  induction sc as [|a sc IH]; intros s s' v E; simpl in E; [inversion E; discriminate|].
  destruct a; try (inversion E; subst; (apply eval_not_sent || discriminate)).
  - destruct (req s m) as [s1 []]; try discriminate. eapply IH; eauto.
  - destruct (req s m) as [s1 []]; try discriminate; eapply IH; eauto.
  - eapply IH; eauto.
  - destruct (do_module s self k) as [s1 [e|]]; [discriminate|eapply IH; eauto].
Qed.

Lemma return_overrides_loaded_req_lemma f s n o k sc s3 ret :
  truthy (loaded s n) = false -> search loLoaders s n [] = inr (o, k, sc) ->
  run_script (require f) n (next s) k sc (enter (set_loaded s n VSent) n o) = (s3, Ok ret) ->
  ret <> VNil ->
  require (S f) s n = (set_loaded s3 n ret, Ok ret).
Proof.
  intros Ht Hs Er Hr. rewrite require_S. cbv zeta. rewrite Ht, Hs.
  change (next (set_loaded s n VSent)) with (next s). rewrite Er.
  apply return_overrides_loaded_lemma; [assumption|]. eapply run_script_ret_not_sent; eauto.
Qed.

Lemma returns_true_when_nothing_lemma f s n o k sc s3 :
  truthy (loaded s n) = false -> search loLoaders s n [] = inr (o, k, sc) ->
  run_script (require f) n (next s) k sc (enter (set_loaded s n VSent) n o) = (s3, Ok VNil) ->
  (loaded s3 n = VSent -> require (S f) s n = (set_loaded s3 n VTrue, Ok VTrue)) /\
  (loaded s3 n <> VSent -> require (S f) s n = (s3, Ok (loaded s3 n))).
Proof.
  intros Ht Hs Er. rewrite require_S. cbv zeta. rewrite Ht, Hs.
  change (next (set_loaded s n VSent)) with (next s). rewrite Er. split; intros H.
  - now apply nothing_gives_true_lemma.
  - now apply nothing_keeps_stored_lemma.
Qed.

Lemma preload_module_found_lemma f s n k sc :
  truthy (loaded s n) = false ->
  let s1 := set_preload s n (Some (mkLoader k sc)) in
  forall s' r, require (S f) s1 n = (s', r) -> exists l', log s' = l' ++ (n, OPre) :: log s.
Proof.
  intros Ht s1 s' r E.
  apply (preload_first_lemma f s1 n (mkLoader k sc) s' r); auto. simpl. apply upd_same.
Qed.

(* the loader of n re-requires n on ANY thread of the state (t): the loop error, sentinel left *)
Lemma loop_across_coroutine_lemma t f s n o k rest :
  truthy (loaded s n) = false -> search loLoaders s n [] = inr (o, k, Require t n :: rest) ->
  exists s', require (S (S f)) s n = (s', Err (ELoop n)) /\ loaded s' n = VSent.
Proof.
  intros Ht Hs.
  destruct (self_require_is_loop_error_lemma s n [] (S (S f))) as (s' & E & Hin & _).
  - constructor; [intros []|constructor].
  - cbn [links hd]. split; [exists t, o, k, rest; exact Hs|exact I].
  - intros m [<-|[]]. exact Ht.
  - simpl. lia.
  - exists s'. split; [exact E|apply Hin; now left].
Qed.

(* ------------------------------------------------------------------ *)
(* a script re-binds package.preload (wave 5) *)

Lemma new_preload_kept s keep n :
  memz n keep = true -> loLoaderPreload (new_preload s keep) n = loLoaderPreload s n.
Proof. intros H. unfold loLoaderPreload. simpl. now rewrite H. Qed.

Lemma new_preload_dropped s keep n :
  memz n keep = false ->
  preload (new_preload s keep) n = None /\
  loLoaderPreload (new_preload s keep) n = SMsg [TPre n] /\
  loLoaderLua (new_preload s keep) n = loLoaderLua s n.
Proof. intros H. unfold loLoaderPreload. simpl. rewrite H. repeat split. Qed.

(* PreloadModule / package.preload[n]=f AFTER the table was replaced: the entry is what require runs,
   whatever was kept, whatever files exist *)
Lemma preload_after_rebind_lemma fuel f s keep n l :
  truthy (loaded s n) = false ->
  let s1 := fst (run fuel s [HNewPreload keep; HSetPreload n (Some l)]) in
  preload s1 n = Some l /\
  forall s' r, require (S f) s1 n = (s', r) -> exists l', log s' = l' ++ (n, OPre) :: log s.
Proof.
  intros Ht. simpl. split; [apply upd_same|]. intros s' r E. destruct l as [k sc].
  apply (preload_module_found_lemma f (new_preload s keep) n k sc Ht s' r E).
Qed.

(* replacing the table touches nothing but package.preload: what is cached stays cached *)
Lemma rebind_keeps_cache_lemma f s keep n :
  truthy (loaded s n) = true -> is_sent (loaded s n) = false ->
  require (S f) (new_preload s keep) n = (new_preload s keep, Ok (loaded s n)).
Proof. intros Ht Hs. rewrite require_S. cbv zeta. simpl. now rewrite Ht, Hs. Qed.

(* ------------------------------------------------------------------ *)
(* thread annotations are transparent (wave 5): moving every nested require of every installed
   loader to the loader's own thread changes no result and no state *)

Lemma strip_find_file fs n : forall p msgs,
  loFindFile (fun d m => option_map strip_file (fs d m)) n p msgs =
  match loFindFile fs n p msgs with
  | inl (d, c) => inl (d, strip_file c)
  | inr t => inr t
  end.
Proof.
  induction p as [|d p IH]; intros msgs; simpl; [reflexivity|].
  destruct (fs d n) as [[sc| |]|]; simpl; auto.
Qed.

Lemma strip_search s n :
  search loLoaders (strip_state s) n [] =
  match search loLoaders s n [] with
  | inl e => inl e
  | inr (o, k, sc) => inr (o, k, map same_thread sc)
  end.
Proof.
  unfold loLoaders, search, loLoaderPreload, loLoaderLua. simpl.
  destruct (preload s n) as [l|]; simpl; [reflexivity|].
  rewrite strip_find_file. destruct (loFindFile (files s) n (path s) []) as [[d [sc| |]]|t]; reflexivity.
Qed.

Lemma strip_do_module s self k :
  do_module (strip_state s) self k = (strip_state (fst (do_module s self k)), snd (do_module s self k)).
Proof.
  unfold do_module, find_table_global. simpl.
  destruct (is_table (loaded s self)); [destruct k; reflexivity|].
  destruct (globals s self); destruct k; reflexivity.
Qed.

Lemma strip_finish s n ret :
  finish (strip_state s) n ret = (strip_state (fst (finish s n ret)), snd (finish s n ret)).
Proof.
  unfold finish. destruct (is_nil ret); simpl.
  - destruct (is_sent (loaded s n)); reflexivity.
  - destruct (is_sent (upd (loaded s) n ret n)); reflexivity.
Qed.

Lemma strip_run_script (req : state -> name -> state * result) self id k :
  (forall s m, req (strip_state s) m = (strip_state (fst (req s m)), snd (req s m))) ->
  forall sc s,
  run_script req self id k (map same_thread sc) (strip_state s) =
  (strip_state (fst (run_script req self id k sc s)), snd (run_script req self id k sc s)).
Proof.
  intros Hreq. induction sc as [|a sc IH]; intros s; [reflexivity|].
  destruct a; cbn [map same_thread run_script].
  - rewrite Hreq. destruct (req s m) as [s1 res]. cbn [fst snd].
    destruct res; try reflexivity. apply IH.
  - rewrite Hreq. destruct (req s m) as [s1 res]. cbn [fst snd].
    destruct res; try reflexivity; apply IH.
  - apply (IH (set_loaded s self (eval id e))).
  - rewrite strip_do_module. destruct (do_module s self k) as [s1 [e|]]; cbn [fst snd]; [reflexivity|apply IH].
  - reflexivity.
  - reflexivity.
  - reflexivity.
Qed.

Lemma require_thread_transparent_lemma : forall f s n,
  require f (strip_state s) n = (strip_state (fst (require f s n)), snd (require f s n)).
Proof.
  induction f as [|f IH]; intros s n; [reflexivity|].
  rewrite !require_S. cbv zeta. rewrite strip_search.
  change (loaded (strip_state s) n) with (loaded s n).
  destruct (truthy (loaded s n)); [destruct (is_sent (loaded s n)); reflexivity|].
  destruct (search loLoaders s n []) as [e|[[o k] sc]]; [reflexivity|].
  change (enter (set_loaded (strip_state s) n VSent) n o) with (strip_state (enter (set_loaded s n VSent) n o)).
  change (next (set_loaded (strip_state s) n VSent)) with (next (set_loaded s n VSent)).
  rewrite (strip_run_script (require f) n _ k IH).
  destruct (run_script (require f) n (next (set_loaded s n VSent)) k sc (enter (set_loaded s n VSent) n o))
    as [s3 r]. cbn [fst snd].
  destruct r; try reflexivity. apply strip_finish.
Qed.

(* ------------------------------------------------------------------ *)
(* host initialisation in any order *)

Lemma register_keeps_tables s m fs s' r :
  register s m fs = (s', r) ->
  forall n, is_table (loaded s n) = true -> loaded s' n = loaded s n /\ globals s' n = globals s n.
Proof.
  unfold register. destruct (is_table (loaded s m)) eqn:Et.
  - intros E n _. inversion E; subst. split; reflexivity.
  - destruct (find_table_global s m) as [s1 [t|]] eqn:Ef; intros E n Hn; inversion E; subst.
    + assert (Hne : n <> m) by (intros ->; congruence).
      destruct (find_table_frame _ _ _ _ Ef) as (_ & HL & _).
      split; [simpl; rewrite upd_other by assumption; now rewrite HL|].
      revert Ef. unfold find_table_global. destruct (globals s m); intros Ef; inversion Ef; subst; try reflexivity.
      simpl. now apply upd_other.
    + destruct (find_table_frame _ _ _ _ Ef) as (_ & _ & _ & _ & (_ & _ & ->)). split; reflexivity.
Qed.

Lemma open_package_keeps_tables s s' r :
  open_package s = (s', r) ->
  forall n, is_table (loaded s n) = true -> loaded s' n = loaded s n /\ globals s' n = globals s n.
Proof.
  unfold open_package. destruct (register s PKG []) as [s1 r1] eqn:Er.
  pose proof (register_keeps_tables _ _ _ _ _ Er) as H.
  destruct r1; intros E; inversion E; subst; exact H.
Qed.

(* OpenPackage: "package" itself is reachable, nothing registered before is lost *)
Lemma open_package_lemma s s' t :
  open_package s = (s', Ok t) ->
  is_table t = true /\ loaded s' PKG = t /\
  (is_table (loaded s PKG) = false -> globals s' PKG = t) /\
  (forall m, m <> PKG -> loaded s' m = loaded s m) /\
  (forall fuel, require (S fuel) s' PKG = (s', Ok t)).
Proof.
  unfold open_package. destruct (register s PKG []) as [s1 r1] eqn:Er.
  destruct r1 as [t1| |]; intros E; inversion E; subst.
  destruct (host_modules_reachable_lemma _ _ _ _ _ Er) as (Ht & Hl & Hg & _ & _).
  destruct (register_effects _ _ _ _ _ Er) as (_ & _ & Ho & _).
  split; [exact Ht|]. split; [exact Hl|]. split; [exact Hg|]. split; [exact Ho|].
  intros fuel. rewrite require_S. cbv zeta. simpl loaded. rewrite Hl, (table_truthy _ Ht).
  destruct t; simpl in Ht; try discriminate. reflexivity.
Qed.

Lemma istep_keeps_tables sb o sb' ob :
  istep sb o = (sb', ob) ->
  forall n, is_table (loaded (fst sb) n) = true ->
    loaded (fst sb') n = loaded (fst sb) n /\ globals (fst sb') n = globals (fst sb) n.
Proof.
  destruct sb as [s b]. destruct o; simpl.
  - intros E; inversion E; subst. auto.
  - destruct (open_package s) as [s' r] eqn:Eo. intros E; inversion E; subst. simpl.
    eapply open_package_keeps_tables; eauto.
  - destruct (register s n []) as [s' r] eqn:Er. intros E; inversion E; subst. simpl.
    eapply register_keeps_tables; eauto.
  - destruct (register s n fs) as [s' r] eqn:Er. intros E; inversion E; subst. simpl.
    eapply register_keeps_tables; eauto.
  - destruct b; intros E; inversion E; subst; simpl; auto.
Qed.

(* a module table in _LOADED survives every initialisation order that follows (OpenPackage
   included), keeps its global, and require returns it *)
Lemma host_modules_reachable_any_order_lemma : forall i sb n,
  is_table (loaded (fst sb) n) = true ->
  let s2 := fst (fst (irun sb i)) in
  loaded s2 n = loaded (fst sb) n /\ globals s2 n = globals (fst sb) n /\
  forall fuel, require (S fuel) s2 n = (s2, Ok (loaded (fst sb) n)).
Proof.
  induction i as [|o i IH]; intros sb n Ht.
  - cbv zeta. simpl irun. simpl fst. split; [reflexivity|]. split; [reflexivity|].
    intros fuel. rewrite require_S. cbv zeta. rewrite (table_truthy _ Ht).
    destruct (loaded (fst sb) n); simpl in Ht; try discriminate. reflexivity.
  - simpl irun. destruct (istep sb o) as [sb1 ob] eqn:Es.
    destruct (istep_keeps_tables _ _ _ _ Es n Ht) as (Hl & Hg).
    assert (Ht1 : is_table (loaded (fst sb1) n) = true) by now rewrite Hl.
    specialize (IH sb1 n Ht1). destruct (irun sb1 i) as [sb2 obs]. cbv zeta in *. simpl fst in *.
    rewrite Hl, Hg in IH. exact IH.
Qed.

(* a candidate that exists but cannot be opened is listed and skipped (Lua 5.1 readable()) *)
Lemma unreadable_candidate_is_skipped_lemma fs n d p msgs :
  readable (fs d n) = false ->
  loFindFile fs n (d :: p) msgs = loFindFile fs n p (msgs ++ [TPath d n]).
Proof. intros H. simpl. destruct (fs d n) as [[| |]|]; simpl in H; try discriminate; reflexivity. Qed.
