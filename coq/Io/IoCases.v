(* Case evaluator for the C19 correspondence shards. *)
From GL Require Import Common.Bytes Io.IoSpec Io.IoImpl Io.IoSys.

(* byte strings are shipped run-length encoded so that a 9000-byte file is a short term *)
Inductive seg :=
| SPat (a n : Z)        (* bytes (a+i) mod 251 for i < n *)
| SRep (b n : Z)        (* n times the byte b *)
| SLit (l : bytes).

Fixpoint pat (a : Z) (n : nat) : bytes :=
  match n with O => [] | S k => (a mod 251) :: pat (a + 1) k end.

Definition dseg (s : seg) : bytes :=
  match s with
  | SPat a n => pat a (Z.to_nat n)
  | SRep b n => repeat b (Z.to_nat n)
  | SLit l => l
  end.

Definition dec (l : list seg) : bytes := flat_map dseg l.

(* initial bytes of the file, the history, what the real library returned for each step *)
Inductive case := Hist (init : bytes) (ops : list sop) (obs : list res).

(* exact: the implementation model (with the kernel's chunking: as much as is there) gives every
   observed result; the snapshots inside [obs] carry the file's bytes *)
Definition check_impl (c : case) : bool :=
  match c with
  | Hist init ops obs => all_match (isys_run ch_full (init, []) ops) obs
  end.

(* the property: Lua 5.1 line rule, disciplined part of the history *)
Definition check_spec (c : case) : bool :=
  match c with
  | Hist init ops obs => spec_check false (init, []) [] ops obs
  end.
