(* C19 — facts about byte strings, [rest], [write_at] and sequential writes. *)
From GL Require Import Common.Bytes Common.BytesFacts Io.IoSpec.
From Coq Require Import Lia ZifyBool.

Lemma len_nil {A} : len (@nil A) = 0.
Proof. reflexivity. Qed.

Lemma len_cons {A} (a : A) l : len (a :: l) = 1 + len l.
Proof. unfold len; simpl length; lia. Qed.

Lemma len_0_nil {A} (l : list A) : len l = 0 -> l = [].
Proof. destruct l; [reflexivity|]; rewrite len_cons; pose proof (len_nonneg l); lia. Qed.

Lemma len_pos_cons {A} (l : list A) : 0 < len l -> exists a t, l = a :: t.
Proof. destruct l; [unfold len; simpl; lia|eauto]. Qed.

Lemma len_firstn {A} (n : nat) (l : list A) : len (firstn n l) = Z.min (Z.of_nat n) (len l).
Proof. unfold len; rewrite firstn_length; lia. Qed.

Lemma len_skipn {A} (n : nat) (l : list A) : len (skipn n l) = Z.max 0 (len l - Z.of_nat n).
Proof. unfold len; rewrite skipn_length; lia. Qed.

Lemma len_repeat {A} (a : A) n : len (repeat a n) = Z.of_nat n.
Proof. unfold len; rewrite repeat_length; reflexivity. Qed.

Lemma len_zeros n : len (zeros n) = Z.max 0 n.
Proof. unfold zeros; rewrite len_repeat; lia. Qed.

Lemma len_rev {A} (l : list A) : len (rev l) = len l.
Proof. unfold len; rewrite rev_length; reflexivity. Qed.

Lemma to_nat_len {A} (l : list A) : Z.to_nat (len l) = length l.
Proof. unfold len; lia. Qed.

Lemma firstn_len_app {A} (a b : list A) : firstn (Z.to_nat (len a)) (a ++ b) = a.
Proof.
  rewrite to_nat_len, firstn_app, Nat.sub_diag, firstn_all. simpl. apply app_nil_r.
Qed.

Lemma skipn_len_app {A} (a b : list A) : skipn (Z.to_nat (len a)) (a ++ b) = b.
Proof.
  rewrite to_nat_len, skipn_app, Nat.sub_diag, skipn_all. reflexivity.
Qed.

Lemma skipn_add {A} (n m : nat) (l : list A) : skipn n (skipn m l) = skipn (m + n) l.
Proof.
  revert l; induction m as [|m IH]; intros l; [reflexivity|].
  destruct l as [|a l]; [now rewrite !skipn_nil|]. simpl. apply IH.
Qed.

(* ---------- rest ---------- *)
Lemma rest_0 c : rest c 0 = c.
Proof. reflexivity. Qed.

Lemma len_rest c p : 0 <= p -> len (rest c p) = Z.max 0 (len c - p).
Proof. intros; unfold rest; rewrite len_skipn; lia. Qed.

Lemma rest_nil_iff c p : 0 <= p -> (rest c p = [] <-> len c <= p).
Proof.
  intros Hp; split; intros H.
  - pose proof (len_rest c p Hp) as L. rewrite H, len_nil in L. lia.
  - apply len_0_nil. rewrite len_rest by lia. lia.
Qed.

Lemma rest_rest c p n : 0 <= p -> 0 <= n -> rest c (p + n) = skipn (Z.to_nat n) (rest c p).
Proof.
  intros; unfold rest. rewrite skipn_add. f_equal. lia.
Qed.

Lemma rest_app_eq c p x y : 0 <= p -> rest c p = x ++ y -> rest c (p + len x) = y.
Proof.
  intros Hp H. rewrite rest_rest by (auto; apply len_nonneg). rewrite H. apply skipn_len_app.
Qed.

Lemma rest_split c o n : 0 <= o -> 0 <= n -> rest c o = slice c o (o + n) ++ rest c (o + n).
Proof.
  intros Ho Hn. rewrite rest_rest by lia. unfold slice, rest.
  replace (o + n - o) with n by lia. symmetry; apply firstn_skipn.
Qed.

Lemma rest_app_len c s : rest (c ++ s) (len c) = s.
Proof. unfold rest. apply skipn_len_app. Qed.

(* ---------- write_at and sequential writes ---------- *)
Lemma len_write_at d o s : 0 <= o -> s <> [] -> len (write_at d o s) = Z.max (len d) (o + len s).
Proof.
  intros Ho Hs. unfold write_at. destruct s as [|b s']; [congruence|].
  rewrite !len_app, len_firstn, len_zeros, len_skipn.
  pose proof (len_nonneg d). pose proof (len_nonneg (b :: s')). lia.
Qed.

Lemma write_at_prefix d o : 0 <= o ->
  len (firstn (Z.to_nat o) d ++ zeros (o - len d)) = o.
Proof.
  intros. rewrite len_app, len_firstn, len_zeros. pose proof (len_nonneg d). lia.
Qed.

Lemma write_at_eq d o s : s <> [] ->
  write_at d o s = (firstn (Z.to_nat o) d ++ zeros (o - len d)) ++ s ++ skipn (Z.to_nat (o + len s)) d.
Proof.
  intros Hs. unfold write_at. destruct s; [congruence|]. rewrite <- app_assoc. reflexivity.
Qed.

Lemma write_at_app d o a b : 0 <= o -> a <> [] ->
  write_at (write_at d o a) (o + len a) b = write_at d o (a ++ b).
Proof.
  intros Ho Ha. destruct b as [|y b'].
  { rewrite app_nil_r. reflexivity. }
  set (b := y :: b') in *.
  assert (Hb : b <> []) by (unfold b; congruence).
  assert (Hab : a ++ b <> []) by (destruct a; simpl; congruence).
  rewrite (write_at_eq _ _ b Hb), (write_at_eq d o (a ++ b) Hab), (write_at_eq d o a Ha).
  set (P := firstn (Z.to_nat o) d ++ zeros (o - len d)).
  assert (HP : len P = o) by (apply write_at_prefix; exact Ho).
  set (T := skipn (Z.to_nat (o + len a)) d).
  assert (L1 : firstn (Z.to_nat (o + len a)) (P ++ a ++ T) = P ++ a).
  { rewrite app_assoc. replace (o + len a) with (len (P ++ a)) by (rewrite len_app; lia).
    apply firstn_len_app. }
  rewrite L1.
  assert (L2 : zeros (o + len a - len (P ++ a ++ T)) = []).
  { unfold zeros. replace (Z.to_nat _) with O; [reflexivity|].
    rewrite !len_app. pose proof (len_nonneg T). lia. }
  rewrite L2.
  assert (L3 : skipn (Z.to_nat (o + len a + len b)) (P ++ a ++ T)
               = skipn (Z.to_nat (o + len (a ++ b))) d).
  { rewrite app_assoc.
    replace (Z.to_nat (o + len a + len b)) with (Z.to_nat (len (P ++ a)) + Z.to_nat (len b))%nat.
    2:{ rewrite len_app. pose proof (len_nonneg a). pose proof (len_nonneg b). lia. }
    rewrite <- skipn_add. rewrite skipn_len_app. unfold T. rewrite skipn_add. f_equal.
    rewrite len_app. pose proof (len_nonneg a). pose proof (len_nonneg b). lia. }
  rewrite L3. rewrite app_nil_r. rewrite <- !app_assoc. reflexivity.
Qed.

(* s_write1 is write(2); writes compose *)
Lemma s_write1_nil app cp : s_write1 app cp [] = cp.
Proof. destruct cp; reflexivity. Qed.

Lemma s_write1_pos_nonneg app c p s : 0 <= p -> 0 <= snd (s_write1 app (c, p) s).
Proof.
  intros Hp. unfold s_write1. destruct s as [|b s']; [exact Hp|].
  destruct app; cbn [snd]; pose proof (len_nonneg c); pose proof (len_nonneg (b :: s')); lia.
Qed.

Lemma s_write1_app app c p a b : 0 <= p ->
  s_write1 app (s_write1 app (c, p) a) b = s_write1 app (c, p) (a ++ b).
Proof.
  intros Hp. destruct a as [|x a']; [reflexivity|].
  destruct b as [|y b']; [rewrite app_nil_r; apply s_write1_nil|].
  set (a := x :: a') in *. set (b := y :: b') in *.
  assert (Ha : a <> []) by (unfold a; congruence).
  unfold s_write1 at 2. fold a. cbn [a]. fold a.
  destruct app.
  - unfold s_write1. fold b. cbn [b]. fold b.
    destruct (a ++ b) eqn:E; [destruct a; discriminate|]. rewrite <- E.
    rewrite <- app_assoc. f_equal. rewrite !len_app. lia.
  - unfold s_write1. fold b. cbn [b]. fold b.
    destruct (a ++ b) eqn:E; [destruct a; discriminate|]. rewrite <- E.
    rewrite write_at_app by assumption. f_equal. rewrite len_app. lia.
Qed.

Lemma fold_s_write1_pos app ss : forall c p, 0 <= p -> 0 <= snd (fold_left (s_write1 app) ss (c, p)).
Proof.
  induction ss as [|s ss IH]; intros c p Hp; [exact Hp|].
  cbn [fold_left]. destruct (s_write1 app (c, p) s) as [c' p'] eqn:E.
  apply IH. pose proof (s_write1_pos_nonneg app c p s Hp) as H. rewrite E in H. exact H.
Qed.

(* several strings written one after the other = their concatenation written at once *)
Lemma fold_s_write1_concat app ss : forall c p, 0 <= p ->
  fold_left (s_write1 app) ss (c, p) = s_write1 app (c, p) (concat ss).
Proof.
  induction ss as [|s ss IH]; intros c p Hp; [reflexivity|].
  cbn [fold_left concat]. rewrite <- s_write1_app by exact Hp.
  destruct (s_write1 app (c, p) s) as [c' p'] eqn:E.
  apply IH. pose proof (s_write1_pos_nonneg app c p s Hp) as H. rewrite E in H. exact H.
Qed.
