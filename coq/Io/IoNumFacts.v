(* C19 — fmt.Fscan's float token over the chunked reader = scan_num on the logical remainder. *)
From GL Require Import Common.Bytes Common.BytesFacts Io.IoSpec Io.IoImpl Io.IoBytesFacts Io.IoReadFacts.
From Coq Require Import Lia ZifyBool.

Section Num.
Variable ch : Z -> Z -> Z -> Z.
Variable disk : bytes.

Notation Rinv := (Rinv disk).
Notation rem := (rem disk).
Notation adv_by := (adv_by disk).

(* a handle reached from h after n bytes, with the remainder known *)
Definition at_ (h hx : ihandle) (n : Z) (r : bytes) : Prop :=
  Rinv hx /\ adv_by h hx n /\ rem hx = r.

Lemma at_refl h : Rinv h -> at_ h h 0 (rem h).
Proof.
  intros I. split; [exact I|]. split; [|reflexivity]. apply adv_by_refl. destruct I as (_ & _ & L); exact L.
Qed.

Lemma at_peek h hx n r hx' c : at_ h hx n r -> peekb ch disk hx = (hx', c) ->
  at_ h hx' n r /\ c = hd_error r /\ c = hd_error (rbuf hx').
Proof.
  intros (I & A & R) P. destruct (peekb_spec ch disk hx hx' c I P) as (B & C1 & C2).
  split; [|split; [rewrite <- R; exact C1|exact C2]].
  split; [eapply adv_by_Rinv; eauto|]. split.
  - replace n with (n + 0) by lia. eapply adv_by_trans; eauto.
  - destruct B as (_ & _ & _ & RR & _). rewrite RR. exact R.
Qed.

Lemma at_adv h hx n b t : at_ h hx n (b :: t) -> hd_error (rbuf hx) = Some b ->
  at_ h (adv hx) (n + 1) t.
Proof.
  intros (I & A & R) H. destruct (rbuf hx) as [|b' t'] eqn:E; [discriminate|]. injection H as ->.
  pose proof (adv_spec disk hx b t' I E) as B.
  split; [eapply adv_by_Rinv; eauto|]. split; [eapply adv_by_trans; eauto|].
  destruct B as (_ & _ & _ & RR & _). rewrite RR, R. reflexivity.
Qed.

Lemma at_span h hx n r p fuel : at_ h hx n r -> (length r < fuel)%nat ->
  exists hy, sspan ch fuel p disk hx [] = Some (hy, fst (span p r)) /\
             at_ h hy (n + len (fst (span p r))) (snd (span p r)).
Proof.
  intros (I & A & R) Fu. rewrite <- R in Fu.
  destruct (sspan_spec ch disk p fuel hx [] I Fu) as (hy & S & B & RR).
  exists hy. rewrite R in *. split; [exact S|].
  split; [eapply adv_by_Rinv; eauto|]. split; [eapply adv_by_trans; eauto|exact RR].
Qed.

Lemma at_len h hx n r : at_ h hx n r -> (length r <= length (rem h))%nat.
Proof.
  intros (_ & (_ & _ & _ & RR & _) & R). rewrite <- R, RR, skipn_length. lia.
Qed.

Lemma rem_length_le h : (length (rem h) <= length (rbuf h) + length disk)%nat.
Proof. unfold IoReadFacts.rem, rest. rewrite app_length, skipn_length. lia. Qed.

(* what follows the optional sign, on both sides *)
Definition tail_i (fuel : nat) (sp sg : bytes) (h2 : ihandle) : option (ihandle * numres) :=
  let (h2', c2) := peekb ch disk h2 in
  if opt_unsup c2 then Some (h2', NUnsup) else
  match sspan ch fuel is_digit disk h2' [] with
  | None => None
  | Some (h3, d1) =>
    let (h3', c3) := peekb ch disk h3 in
    let dotted := match c3 with Some c => c =? 46 | None => false end in
    match (if dotted then sspan ch fuel is_digit disk (adv h3') [] else Some (h3', [])) with
    | None => None
    | Some (h5, d2) =>
      let (h5', c5) := peekb ch disk h5 in
      if opt_unsup c5 then Some (h5', NUnsup) else
      if 300 <? len d1 + len d2 then Some (h5', NUnsup) else
      let consumed := len sp + len sg + len d1 + (if dotted then 1 else 0) + len d2 in
      match d1 ++ d2 with
      | [] => Some (h5', NBad consumed)
      | ds => let v := digits_val ds in
              Some (h5', NOk consumed (match sg with [45] => - v | _ => v end) (len d2))
      end
    end
  end.

Definition tail_s (sp sg r2 : bytes) : numres :=
  if head_unsup r2 then NUnsup else
  let (d1, r3) := span is_digit r2 in
  let (dot, r4) := match r3 with c :: t3 => if c =? 46 then ([46], t3) else ([], r3) | [] => ([], r3) end in
  let (d2, r5) := match dot with [] => ([], r4) | _ => span is_digit r4 end in
  if head_unsup r5 then NUnsup else
  if 300 <? len d1 + len d2 then NUnsup else
  let consumed := len sp + len sg + len d1 + len dot + len d2 in
  match d1 ++ d2 with
  | [] => NBad consumed
  | ds => let v := digits_val ds in
          NOk consumed (match sg with [45] => - v | _ => v end) (len d2)
  end.

Definition num_adv (h h' : ihandle) (r : numres) : Prop :=
  match r with
  | NUnsup => True
  | NEof n | NBad n | NOk n _ _ => adv_by h h' n
  end.

Lemma tail_spec h fuel sp sg h2 r2 :
  (forall hx n r, at_ h hx n r -> (length r < fuel)%nat) ->
  at_ h h2 (0 + len sp + len sg) r2 ->
  exists h', tail_i fuel sp sg h2 = Some (h', tail_s sp sg r2) /\ num_adv h h' (tail_s sp sg r2).
Proof.
  intros FU T2. unfold tail_i, tail_s.
  destruct (peekb ch disk h2) as [h2' c2] eqn:P2.
  destruct (at_peek _ _ _ _ _ _ T2 P2) as (T2' & C2 & _).
  assert (U2 : opt_unsup c2 = head_unsup r2) by (subst c2; destruct r2; reflexivity).
  rewrite U2. destruct (head_unsup r2); [exists h2'; split; [reflexivity|exact Logic.I]|].
  (* integer digits *)
  destruct (at_span h h2' _ r2 is_digit fuel T2' (FU _ _ _ T2')) as (h3 & S3 & T3).
  rewrite S3. destruct (span is_digit r2) as [d1 r3]. cbn [fst snd] in *.
  destruct (peekb ch disk h3) as [h3' c3] eqn:P3.
  destruct (at_peek _ _ _ _ _ _ T3 P3) as (T3' & C3 & C3').
  (* optional '.' and fraction digits *)
  assert (DOT : exists h5 d2 dot r4 r5,
             (if match c3 with Some c => c =? 46 | None => false end
              then sspan ch fuel is_digit disk (adv h3') [] else Some (h3', [])) = Some (h5, d2) /\
             match r3 with c :: t3 => if c =? 46 then ([46], t3) else ([], r3) | [] => ([], r3) end = (dot, r4) /\
             match dot with [] => ([], r4) | _ :: _ => span is_digit r4 end = (d2, r5) /\
             (if match c3 with Some c => c =? 46 | None => false end then 1 else 0) = len dot /\
             at_ h h5 (0 + len sp + len sg + len d1 + len dot + len d2) r5).
  { subst c3. destruct r3 as [|c t3]; cbn [hd_error].
    - exists h3', [], [], [], []. do 4 (split; [reflexivity|]).
      change (len (@nil Z)) with 0. rewrite !Z.add_0_r. exact T3'.
    - destruct (c =? 46) eqn:E46.
      + assert (T4 : at_ h (adv h3') (0 + len sp + len sg + len d1 + 1) t3).
        { apply at_adv with (b := c); [exact T3'|]. symmetry; exact C3'. }
        destruct (at_span h (adv h3') _ t3 is_digit fuel T4 (FU _ _ _ T4)) as (h5 & S5 & T5).
        exists h5, (fst (span is_digit t3)), [46], t3, (snd (span is_digit t3)).
        split; [exact S5|]. split; [reflexivity|]. split; [destruct (span is_digit t3); reflexivity|].
        split; [reflexivity|]. change (len [46]) with 1. exact T5.
      + exists h3', [], [], (c :: t3), (c :: t3). do 4 (split; [reflexivity|]).
        change (len (@nil Z)) with 0. rewrite !Z.add_0_r. exact T3'. }
  destruct DOT as (h5 & d2 & dot & r4 & r5 & E1 & E2 & E3 & E4 & T5).
  rewrite E1, E2, E3, E4. clear E1 E2 E3.
  destruct (peekb ch disk h5) as [h5' c5] eqn:P5.
  destruct (at_peek _ _ _ _ _ _ T5 P5) as (T5' & C5 & _).
  assert (U5 : opt_unsup c5 = head_unsup r5) by (subst c5; destruct r5; reflexivity).
  rewrite U5. destruct (head_unsup r5); [exists h5'; split; [reflexivity|exact Logic.I]|].
  destruct (300 <? len d1 + len d2); [exists h5'; split; [reflexivity|exact Logic.I]|].
  rewrite Z.add_0_l in T5'. destruct T5' as (_ & A & _).
  exists h5'. destruct (d1 ++ d2); (split; [reflexivity|exact A]).
Qed.

Lemma scanNum_spec h : Rinv h ->
  exists h', scanNum ch disk h = Some (h', scan_num (rem h)) /\ num_adv h h' (scan_num (rem h)).
Proof.
  intros I.
  set (fuel := S (length (rbuf h) + length disk)).
  assert (FU : forall hx n r, at_ h hx n r -> (length r < fuel)%nat).
  { intros hx n r H. pose proof (at_len _ _ _ _ H). pose proof (rem_length_le h). unfold fuel. lia. }
  pose proof (at_refl h I) as T0.
  destruct (at_span h h 0 (rem h) is_space fuel T0 (FU _ _ _ T0)) as (h1 & S1 & T1).
  destruct (span is_space (rem h)) as [sp r1] eqn:SP. cbn [fst snd] in *.
  destruct (peekb ch disk h1) as [h1' c1] eqn:P1.
  destruct (at_peek _ _ _ _ _ _ T1 P1) as (T1' & C1 & C1').
  assert (EI : scanNum ch disk h =
               match c1 with
               | None => Some (h1', NEof (len sp))
               | Some b1 =>
                 if num_unsup b1 then Some (h1', NUnsup) else
                 let (h2, sg) := if is_sign b1 then (adv h1', [b1]) else (h1', []) in
                 tail_i fuel sp sg h2
               end).
  { unfold scanNum. fold fuel. rewrite S1, P1. reflexivity. }
  assert (ES : scan_num (rem h) =
               match r1 with
               | [] => NEof (len sp)
               | c1 :: t1 =>
                 if head_unsup r1 then NUnsup else
                 let (sg, r2) := if is_sign c1 then ([c1], t1) else ([], r1) in
                 tail_s sp sg r2
               end).
  { unfold scan_num. rewrite SP. reflexivity. }
  rewrite EI, ES. clear EI ES.
  destruct r1 as [|b1 t1]; cbn [hd_error] in C1; subst c1.
  { exists h1'. split; [reflexivity|]. destruct T1' as (_ & A & _). rewrite Z.add_0_l in A. exact A. }
  cbn [head_unsup]. destruct (num_unsup b1); [exists h1'; split; [reflexivity|exact Logic.I]|].
  destruct (is_sign b1).
  - apply tail_spec; [exact FU|].
    change (len [b1]) with 1. apply at_adv with (b := b1); [exact T1'|symmetry; exact C1'].
  - apply tail_spec; [exact FU|].
    change (len (@nil Z)) with 0. rewrite Z.add_0_r. exact T1'.
Qed.

End Num.
