(* C19 — implementation model: transcription of iolib.go's lFile (one os.File descriptor, an
   optional 4096-byte bufio.Reader, the writer being the descriptor itself or a bufio.Writer) and of
   the pieces of bufio/fmt it relies on (Reader.Read/ReadByte/ReadSlice/ReadLine/fill, io.ReadAll,
   Writer.Write/Flush), iolib.go readNumber (the decimal numeral of C's %lf), utils.go readBufioSize /
   readBufioLine.  State of the tree modelled: after the C19 fix commits (see notes/C19.md).

   [ch tick req avail] is the chunking oracle: how many bytes one read(2) of [req] bytes returns when
   [avail] > 0 bytes are left; it is clamped to [1, min req avail], so every function is a legal
   chunking.  The real kernel returns min req avail on regular files ([ch_full]).
   No proofs in this file. *)
From GL Require Import Common.Bytes Io.IoSpec.

Definition RBUF : Z := 4096.   (* fileDefaultReadBuffer *)
Definition WBUF : Z := 4096.   (* fileDefaultWriteBuffer, and bufio's default for size <= 0 *)

Record ihandle := mkI {
  ofs : Z;                      (* descriptor offset *)
  rbuf : bytes;                 (* bufio.Reader: buffered, unread *)
  wb : option (bytes * Z);      (* bufio.Writer: pending bytes, capacity; None = writes go to fp *)
  i_rd : bool;                  (* reader != nil *)
  i_wr : bool;                  (* writer != nil *)
  i_app : bool;                 (* O_APPEND *)
  i_closed : bool;
  tick : Z                      (* number of read(2) calls so far: index into the oracle *)
}.

Definition upd_r (h : ihandle) (o : Z) (rb : bytes) (tk : Z) : ihandle :=
  mkI o rb (wb h) (i_rd h) (i_wr h) (i_app h) (i_closed h) tk.
Definition upd_w (h : ihandle) (o : Z) (w : option (bytes * Z)) : ihandle :=
  mkI o (rbuf h) w (i_rd h) (i_wr h) (i_app h) (i_closed h) (tick h).
Definition upd_closed (h : ihandle) : ihandle :=
  mkI (ofs h) (rbuf h) (wb h) (i_rd h) (i_wr h) (i_app h) true (tick h).

Definition ch_full (tk req avail : Z) : Z := Z.min req avail.

(* result of one format *)
Inductive rd1 := RdV (v : val) | RdErr | RdFuel | RdUnsup.

(* ReadSlice('\n') outcomes *)
Inductive rsl := SlLine (l : bytes) | SlEOF (l : bytes) | SlFull (l : bytes).

(* (line incl. the '\n', rest) at the first '\n' *)
Fixpoint split_nl (r : bytes) : option (bytes * bytes) :=
  match r with
  | [] => None
  | b :: r' =>
    if b =? 10 then Some ([b], r') else
    match split_nl r' with Some (l, t) => Some (b :: l, t) | None => None end
  end.

(* ReadLine's trimming of a line that ends in '\n': drop it, and a '\r' just before it *)
Definition drop_eol (l : bytes) : bytes :=
  let body := removelast l in
  if last body 0 =? 13 then removelast body else body.

Section Chunk.
Variable ch : Z -> Z -> Z -> Z.

(* one read(2) of [req] > 0 bytes at offset [o]; [] = end of file *)
Definition fd_read (disk : bytes) (o tk req : Z) : bytes :=
  let avail := len disk - o in
  if avail <=? 0 then [] else
  let c := Z.max 1 (Z.min (Z.min req avail) (ch tk req avail)) in
  slice disk o (o + c).

(* bufio.Reader.fill (called only when the buffer is not full); true = it met end of file *)
Definition fill (disk : bytes) (h : ihandle) : ihandle * bool :=
  let d := fd_read disk (ofs h) (tick h) (RBUF - len (rbuf h)) in
  (upd_r h (ofs h + len d) (rbuf h ++ d) (tick h + 1), match d with [] => true | _ => false end).

(* bufio.Reader.Read(p), len p = k > 0; [] = (0, io.EOF) *)
Definition bRead (disk : bytes) (h : ihandle) (k : Z) : ihandle * bytes :=
  match rbuf h with
  | [] =>
    if RBUF <=? k then
      let d := fd_read disk (ofs h) (tick h) k in
      (upd_r h (ofs h + len d) [] (tick h + 1), d)
    else
      let d := fd_read disk (ofs h) (tick h) RBUF in
      let n := Z.to_nat (Z.min k (len d)) in
      (upd_r h (ofs h + len d) (skipn n d) (tick h + 1), firstn n d)
  | rb =>
    let n := Z.to_nat (Z.min k (len rb)) in
    (upd_r h (ofs h) (skipn n rb) (tick h), firstn n rb)
  end.

(* utils.go readBufioSize, size > 0: (result, saw EOF) *)
Definition RCHUNK : Z := 8192.   (* readBufioChunk: readBufioSize never asks for more at once *)

Fixpoint readSize (fuel : nat) (disk : bytes) (h : ihandle) (want : Z) (acc : bytes)
  : option (ihandle * bytes * bool) :=
  if want <=? 0 then Some (h, acc, false) else
  match fuel with
  | O => None
  | S f =>
    let (h', d) := bRead disk h (Z.min want RCHUNK) in
    match d with
    | [] => Some (h', acc, true)
    | _ => readSize f disk h' (want - len d) (acc ++ d)
    end
  end.

(* ReadByte + UnreadByte / ReadRune + UnreadRune on ASCII: the next byte, filling an empty buffer *)
Definition peekb (disk : bytes) (h : ihandle) : ihandle * option Z :=
  match rbuf h with
  | b :: _ => (h, Some b)
  | [] => let (h', _) := fill disk h in (h', hd_error (rbuf h'))
  end.

Definition adv (h : ihandle) : ihandle := upd_r h (ofs h) (tl (rbuf h)) (tick h).

(* bufio.Reader.ReadSlice('\n'); [pend] = b.err holds io.EOF from the last fill *)
Fixpoint readSlice (fuel : nat) (disk : bytes) (h : ihandle) (pend : bool) : option (ihandle * rsl) :=
  match split_nl (rbuf h) with
  | Some (l, t) => Some (upd_r h (ofs h) t (tick h), SlLine l)
  | None =>
    if pend then Some (upd_r h (ofs h) [] (tick h), SlEOF (rbuf h))
    else if RBUF <=? len (rbuf h) then Some (upd_r h (ofs h) [] (tick h), SlFull (rbuf h))
    else match fuel with
         | O => None
         | S f => let (h', e) := fill disk h in readSlice f disk h' e
         end
  end.

(* bufio.Reader.ReadLine: (line, isPrefix, err = io.EOF) *)
Definition readLine (fuel : nat) (disk : bytes) (h : ihandle) : option (ihandle * (bytes * bool * bool)) :=
  match readSlice fuel disk h false with
  | None => None
  | Some (h', SlFull l) =>
    (* "\r\n" may straddle the buffer: a trailing '\r' is put back *)
    if last l 0 =? 13
    then Some (upd_r h' (ofs h') (13 :: rbuf h') (tick h'), (removelast l, true, false))
    else Some (h', (l, true, false))
  | Some (h', SlLine l) => Some (h', (drop_eol l, false, false))
  | Some (h', SlEOF l) =>
    match l with
    | [] => Some (h', ([], false, true))
    | _ => Some (h', (l, false, false))
    end
  end.

(* utils.go readBufioLine: (result, iseof) *)
Fixpoint readBLine (fuel : nat) (disk : bytes) (h : ihandle) (acc : bytes) : option (ihandle * bytes * bool) :=
  match fuel with
  | O => None
  | S f =>
    match readLine fuel disk h with
    | None => None
    | Some (h', (l, pre, eof)) =>
      if eof then Some (h', acc, match acc with [] => true | _ => false end)
      else if pre then readBLine f disk h' (acc ++ l)
      else Some (h', acc ++ l, false)
    end
  end.

Definition line_fuel (disk : bytes) (h : ihandle) : nat := S (S (length (rbuf h) + length disk)).

(* stream version of [span]: consume while [p]; ends having looked at the delimiter *)
Fixpoint sspan (fuel : nat) (p : Z -> bool) (disk : bytes) (h : ihandle) (acc : bytes) : option (ihandle * bytes) :=
  match fuel with
  | O => None
  | S f =>
    let (h1, c) := peekb disk h in
    match c with
    | Some b => if p b then sspan f p disk (adv h1) (b :: acc) else Some (h1, rev acc)
    | None => Some (h1, rev acc)
    end
  end.

Definition opt_unsup (c : option Z) : bool := match c with Some b => num_unsup b | None => false end.

(* readNumber: white space, sign, digits, '.', digits; every look at the next byte is a ReadByte
   (undone at the end), which fills an empty buffer *)
Definition scanNum (disk : bytes) (h : ihandle) : option (ihandle * numres) :=
  let fuel := S (length (rbuf h) + length disk) in
  match sspan fuel is_space disk h [] with
  | None => None
  | Some (h1, sp) =>
    let (h1', c1) := peekb disk h1 in
    match c1 with
    | None => Some (h1', NEof (len sp))
    | Some b1 =>
      if num_unsup b1 then Some (h1', NUnsup) else
      let (h2, sg) := if is_sign b1 then (adv h1', [b1]) else (h1', []) in
      let (h2', c2) := peekb disk h2 in
      if opt_unsup c2 then Some (h2', NUnsup) else
      match sspan fuel is_digit disk h2' [] with
      | None => None
      | Some (h3, d1) =>
        let (h3', c3) := peekb disk h3 in
        let dotted := match c3 with Some c => c =? 46 | None => false end in
        match (if dotted then sspan fuel is_digit disk (adv h3') [] else Some (h3', [])) with
        | None => None
        | Some (h5, d2) =>
          let (h5', c5) := peekb disk h5 in
          if opt_unsup c5 then Some (h5', NUnsup) else
          if 300 <? len d1 + len d2 then Some (h5', NUnsup) else
          let consumed := len sp + len sg + len d1 + (if dotted then 1 else 0) + len d2 in
          match d1 ++ d2 with
          | [] => Some (h5', NBad consumed)
          | ds => let v := digits_val ds in
                  Some (h5', NOk consumed (match sg with [45] => - v | _ => v end) (len d2))
          end
        end
      end
    end
  end.

(* one format of fileReadAux *)
Definition iread1 (disk : bytes) (h : ihandle) (f : rfmt) : ihandle * rd1 :=
  match f with
  | FCount n =>
    if n =? 0 then
      let (h', c) := peekb disk h in
      (h', RdV (match c with None => VNil | Some _ => VStr [] end))
    else
      (* a negative count becomes 2^63-1: the loop asks for RCHUNK bytes until the end of the file;
         any count it cannot reach before that gives the same reads *)
      let want := if n <? 0 then RCHUNK * (len (rbuf h) + len disk + 1) else n in
      match readSize (S (length (rbuf h) + length disk)) disk h want [] with
      | None => (h, RdFuel)
      | Some (h', acc, eof) =>
        (h', RdV (match acc with [] => if eof then VNil else VStr [] | _ => VStr acc end))
      end
  | FLine =>
    match readBLine (line_fuel disk h) disk h [] with
    | None => (h, RdFuel)
    | Some (h', l, iseof) => (h', RdV (if iseof then VNil else VStr l))
    end
  | FAll =>
    (* io.ReadAll reads until read(2) reports the end: everything buffered and on disk from ofs *)
    (upd_r h (Z.max (ofs h) (len disk)) [] (tick h + 1),
     RdV (VStr (rbuf h ++ skipn (Z.to_nat (ofs h)) disk)))
  | FNum =>
    match scanNum disk h with
    | None => (h, RdFuel)
    | Some (h', NEof _) => (h', RdV VNil)
    | Some (h', NBad _) => (h', RdV VNil)        (* no numeral: a plain nil *)
    | Some (h', NOk _ v k) => (h', RdV (VNum v k))
    | Some (h', NUnsup) => (h', RdUnsup)
    end
  end.

Fixpoint ireads (disk : bytes) (h : ihandle) (fs : list rfmt) (acc : list val) : ihandle * res :=
  match fs with
  | [] => (h, RVals (rev acc))
  | f :: fs' =>
    match iread1 disk h f with
    | (h', RdV VNil) => (h', RVals (rev (VNil :: acc)))
    | (h', RdV v) => ireads disk h' fs' (v :: acc)
    | (h', RdErr) => (h', RFail)               (* errreturn: nil, message, 1; earlier values dropped *)
    | (h', RdFuel) => (h', ROutOfFuel)
    | (h', RdUnsup) => (h', RUnsupported)
    end
  end.

(* fileLinesIter called up to k times *)
Fixpoint ilines (disk : bytes) (h : ihandle) (k : nat) (acc : list val) : ihandle * res :=
  match k with
  | O => (h, RVals (rev acc))
  | S k' =>
    match readBLine (line_fuel disk h) disk h [] with
    | None => (h, ROutOfFuel)
    | Some (h', l, iseof) =>
      if iseof then (h', RVals (rev (VNil :: acc))) else ilines disk h' k' (VStr l :: acc)
    end
  end.

(* lFile.AbandonReadBuffer *)
Definition abandon (h : ihandle) : ihandle :=
  if i_rd h then upd_r h (ofs h - len (rbuf h)) [] (tick h) else h.

(* write(2) on the descriptor *)
Definition fd_write (app : bool) (disk : bytes) (o : Z) (s : bytes) : bytes * Z :=
  match s with
  | [] => (disk, o)
  | _ => if app then (disk ++ s, len disk + len s) else (write_at disk o s, o + len s)
  end.

(* bufio.Writer.Write *)
Definition bw_write (app : bool) (disk : bytes) (o : Z) (buf : bytes) (cap : Z) (p : bytes)
  : bytes * Z * bytes :=
  if len p <=? cap - len buf then (disk, o, buf ++ p) else
  match buf with
  | [] => let (d', o') := fd_write app disk o p in (d', o', [])
  | _ =>
    let n := Z.to_nat (cap - len buf) in
    let (d1, o1) := fd_write app disk o (buf ++ firstn n p) in
    let p' := skipn n p in
    if len p' <=? cap then (d1, o1, p')
    else let (d2, o2) := fd_write app d1 o1 p' in (d2, o2, [])
  end.

(* out.Write(s) in fileWriteAux *)
Definition iwrite1 (dh : bytes * ihandle) (s : bytes) : bytes * ihandle :=
  let (disk, h) := dh in
  match wb h with
  | None => let (d', o') := fd_write (i_app h) disk (ofs h) s in (d', upd_w h o' None)
  | Some (buf, cap) =>
    let '(d', o', buf') := bw_write (i_app h) disk (ofs h) buf cap s in (d', upd_w h o' (Some (buf', cap)))
  end.

(* bufio.Writer.Flush if the writer is one *)
Definition iflush (disk : bytes) (h : ihandle) : bytes * ihandle :=
  match wb h with
  | None => (disk, h)
  | Some (buf, cap) =>
    let (d', o') := fd_write (i_app h) disk (ofs h) buf in (d', upd_w h o' (Some ([], cap)))
  end.

Definition vcap (size : option Z) : Z :=
  match size with
  | None => WBUF
  | Some n => if n <=? 0 then WBUF else Z.min n 1048576   (* fileMaxWriteBuffer: the size is a hint *)
  end.

(* the file methods *)
Definition istep (disk : bytes) (h : ihandle) (o : op) : bytes * ihandle * res :=
  if i_closed h then
    match o with
    | ONext _ =>
      (* fileLinesIter has no guard of its own: it raises because the read on the closed descriptor
         fails, which it reaches only with nothing buffered (fileCloseAux abandons the read-ahead);
         a closed handle with a read-ahead is outside the model *)
      (disk, h, match rbuf h with [] => RRaise | _ => RUnsupported end)
    | _ => (disk, h, RRaise)
    end
  else
  match o with
  (* a read first writes out what a buffered writer holds (flushPending) *)
  | ORead fs =>
    if negb (i_rd h) then (disk, h, RFail) else
    let (d1, h1) := iflush disk h in
    let (h', r) := ireads d1 h1 fs [] in (d1, h', r)
  (* making an iterator reads nothing; its first step flushes *)
  | OLines k =>
    if negb (i_rd h) then (disk, h, RFail) else
    match k with
    | O => (disk, h, RVals [])
    | S _ => let (d1, h1) := iflush disk h in
             let (h', r) := ilines d1 h1 k [] in (d1, h', r)
    end
  | ONext k =>
    if negb (i_rd h) then (disk, h, RUnsupported) else
    match k with
    | O => (disk, h, RVals [])
    | S _ => let (d1, h1) := iflush disk h in
             let (h', r) := ilines d1 h1 k [] in (d1, h', r)
    end
  | OWrite ss =>
    if negb (i_wr h) then (disk, h, RFail) else
    let (d', h') := fold_left iwrite1 ss (disk, abandon h) in (d', h', RTrue)
  | OSeek w off =>
    let (d1, h1) := iflush disk h in
    let h2 := abandon h1 in
    let np := seek_target w off (ofs h2) (len d1) in
    if np <? 0 then (d1, h2, RFail) else (d1, upd_r h2 np (rbuf h2) (tick h2), ROff np)
  | OFlush =>
    if negb (i_wr h) then (disk, h, RTrue) else
    let (d1, h1) := iflush disk h in (d1, h1, RTrue)
  | OSetvbuf m size =>
    if negb (i_wr h) then (disk, h, RTrue) else
    let (d1, h1) := iflush disk h in
    (d1, upd_w h1 (ofs h1) (match m with VNo => None | _ => Some ([], vcap size) end), RTrue)
  | OClose =>
    let (d1, h1) := iflush disk (upd_closed h) in (d1, abandon h1, RTrue)
  end.

Fixpoint irun (disk : bytes) (h : ihandle) (ops : list op) : bytes * ihandle * list res :=
  match ops with
  | [] => (disk, h, [])
  | o :: ops' =>
    let '(d1, h1, r) := istep disk h o in
    let '(d2, h2, rs) := irun d1 h1 ops' in (d2, h2, r :: rs)
  end.

End Chunk.

(* ioOpenFile + newFile (the file exists) *)
Definition i_open (m : omode) (disk : bytes) : bytes * ihandle :=
  (if mode_trunc m then [] else disk,
   mkI 0 [] None (mode_rd m) (mode_wr m) (mode_app m) false 0).

(* the cursor and the contents a handle stands for: the bytes held by a buffered writer count as
   written at the cursor (s_write1 is write(2) on (contents, offset)) *)
Definition pending (h : ihandle) : bytes := match wb h with Some (b, _) => b | None => [] end.

Definition abs_view (disk : bytes) (h : ihandle) : bytes * Z :=
  s_write1 (i_app h) (disk, ofs h - len (rbuf h)) (pending h).

Definition abs_content (disk : bytes) (h : ihandle) : bytes := fst (abs_view disk h).
Definition abs_pos (disk : bytes) (h : ihandle) : Z := snd (abs_view disk h).

Definition abs_h (disk : bytes) (h : ihandle) : shandle :=
  mkS (abs_pos disk h) (i_rd h) (i_wr h) (i_app h) (i_closed h).
