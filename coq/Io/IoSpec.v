(* C19 — specification: a file handle is a cursor over one byte sequence.
   Reading of the Lua 5.1 manual (io library) + ISO C stream rules + POSIX lseek/write for
   positions beyond the end.  No buffers here.  No proofs in this file.

   [crlf] selects the line rule: [false] is Lua 5.1 (a line ends at '\n', only the '\n' is
   dropped); [true] additionally drops a '\r' that precedes the '\n' (what gopher-lua does,
   finding C19-3).  The property is [crlf = false]. *)
From GL Require Import Common.Bytes.

Inductive rfmt := FCount (n : Z) | FLine | FAll | FNum.
Inductive whence := WSet | WCur | WEnd.
Inductive vmode := VNo | VFull | VLine.

Inductive op :=
| ORead (fs : list rfmt)              (* f:read(fmt, ...) ; f:read() is ORead [FLine] *)
| OLines (k : nat)                    (* it = f:lines(); it() up to k times, stopping after a nil *)
| ONext (k : nat)                     (* the iterator of the handle's last f:lines(), called again up to k
                                         times (it exists: the harness only asks when it got one) *)
| OWrite (ss : list bytes)            (* f:write(s1, ...) *)
| OSeek (w : whence) (off : Z)
| OFlush
| OSetvbuf (m : vmode) (size : option Z)
| OClose.

(* VNum n k is the decimal n / 10^k (what the model reads); VDy m e is the binary64 value
   m * 2^e with 2^52 <= |m| < 2^53 or m = 0 (what the harness observed). *)
Inductive val := VNil | VStr (s : bytes) | VNum (n k : Z) | VDy (m e : Z).

Inductive res :=
| RVals (l : list val)     (* results of read / lines *)
| RFail                    (* nil, message [, errno] *)
| RTrue
| ROff (z : Z)
| RRaise                   (* a Lua error was raised *)
| RBytes (b : bytes)       (* the file's bytes (system level: snapshot) *)
| ROutOfFuel
| RUnsupported.

(* ---------- bytes ---------- *)
Definition zeros (n : Z) : bytes := repeat 0 (Z.to_nat n).

(* pwrite(2): [s] at offset [o]; a gap beyond the end reads as zeros; nothing for an empty [s] *)
Definition write_at (d : bytes) (o : Z) (s : bytes) : bytes :=
  match s with
  | [] => d
  | _ => firstn (Z.to_nat o) d ++ zeros (o - len d) ++ s ++ skipn (Z.to_nat (o + len s)) d
  end.

Definition rest (c : bytes) (pos : Z) : bytes := skipn (Z.to_nat pos) c.

(* ---------- lines ---------- *)
Fixpoint take_line (r : bytes) : bytes * bool :=
  match r with
  | [] => ([], false)
  | b :: r' => if b =? 10 then ([], true) else let (l, f) := take_line r' in (b :: l, f)
  end.

Fixpoint drop_last_cr (l : bytes) : bytes :=
  match l with
  | [] => []
  | b :: t => match t with [] => if b =? 13 then [] else [b] | _ => b :: drop_last_cr t end
  end.

(* value and number of bytes consumed; None = end of file *)
Definition line_of (crlf : bool) (r : bytes) : option (bytes * Z) :=
  match r with
  | [] => None
  | _ => let (l, nl) := take_line r in
         Some (if crlf && nl then drop_last_cr l else l, len l + (if nl then 1 else 0))
  end.

(* ---------- numerals (the decimal fragment on which C's %lf and Go's Fscan agree) ---------- *)
Definition is_space (b : Z) : bool := ((9 <=? b) && (b <=? 13)) || (b =? 32).
Definition is_digit (b : Z) : bool := (48 <=? b) && (b <=? 57).
Definition is_sign (b : Z) : bool := (b =? 43) || (b =? 45).
(* The exponent part ("e", "E") is not modelled: reading a number next to one of these bytes is
   Unsupported.  (The code reads decimal numerals only: no hex, inf, nan.) *)
Definition num_unsup (b : Z) : bool := existsb (Z.eqb b) [101;69].

Fixpoint span (p : Z -> bool) (r : bytes) : bytes * bytes :=
  match r with
  | [] => ([], [])
  | b :: r' => if p b then let (a, t) := span p r' in (b :: a, t) else ([], r)
  end.

Definition digits_val (ds : bytes) : Z := fold_left (fun a d => 10 * a + (d - 48)) ds 0.

Definition head_unsup (r : bytes) : bool :=
  match r with [] => false | c :: _ => num_unsup c end.

Inductive numres :=
| NEof (consumed : Z)              (* only white space up to the end of the file *)
| NBad (consumed : Z)              (* no numeral here *)
| NOk (consumed : Z) (n k : Z)     (* the numeral n / 10^k *)
| NUnsup.

Definition scan_num (r : bytes) : numres :=
  let (sp, r1) := span is_space r in
  match r1 with
  | [] => NEof (len sp)
  | c1 :: t1 =>
    if head_unsup r1 then NUnsup else
    let (sg, r2) := if is_sign c1 then ([c1], t1) else ([], r1) in
    if head_unsup r2 then NUnsup else
    let (d1, r3) := span is_digit r2 in
    let (dot, r4) := match r3 with c :: t3 => if c =? 46 then ([46], t3) else ([], r3) | [] => ([], r3) end in
    let (d2, r5) := match dot with [] => ([], r4) | _ => span is_digit r4 end in
    if head_unsup r5 then NUnsup else
    if 300 <? len d1 + len d2 then NUnsup else
    let consumed := len sp + len sg + len d1 + len dot + len d2 in
    match d1 ++ d2 with
    | [] => NBad consumed
    | ds => let v := digits_val ds in
            NOk consumed (match sg with [45] => - v | _ => v end) (len d2)
    end
  end.

(* ---------- one handle ---------- *)
Record shandle := mkS { s_pos : Z; s_rd : bool; s_wr : bool; s_app : bool; s_closed : bool }.

Definition s_setpos (h : shandle) (p : Z) : shandle :=
  mkS p (s_rd h) (s_wr h) (s_app h) (s_closed h).

(* one format: value and new position; None = outside the supported fragment *)
Definition s_read1 (crlf : bool) (c : bytes) (pos : Z) (f : rfmt) : option (val * Z) :=
  let r := rest c pos in
  match f with
  | FCount n =>
    (* up to n bytes; a negative count is no limit (C Lua converts it to size_t) *)
    match r with
    | [] => Some (VNil, pos)
    | _ => let k := if n <? 0 then len r else Z.min n (len r) in
           let s := firstn (Z.to_nat k) r in Some (VStr s, pos + len s)
    end
  | FLine =>
    match line_of crlf r with
    | None => Some (VNil, pos)
    | Some (l, n) => Some (VStr l, pos + n)
    end
  | FAll => Some (VStr r, pos + len r)
  | FNum =>
    match scan_num r with
    | NEof n => Some (VNil, pos + n)
    | NBad n => Some (VNil, pos + n)
    | NOk n v k => Some (VNum v k, pos + n)
    | NUnsup => None
    end
  end.

(* formats left to right; the first nil ends the call *)
Fixpoint s_reads (crlf : bool) (c : bytes) (pos : Z) (fs : list rfmt) (acc : list val) : res * Z :=
  match fs with
  | [] => (RVals (rev acc), pos)
  | f :: fs' =>
    match s_read1 crlf c pos f with
    | None => (RUnsupported, pos)
    | Some (VNil, p') => (RVals (rev (VNil :: acc)), p')
    | Some (v, p') => s_reads crlf c p' fs' (v :: acc)
    end
  end.

Fixpoint s_lines (crlf : bool) (c : bytes) (pos : Z) (k : nat) (acc : list val) : list val * Z :=
  match k with
  | O => (rev acc, pos)
  | S k' =>
    match line_of crlf (rest c pos) with
    | None => (rev (VNil :: acc), pos)
    | Some (l, n) => s_lines crlf c (pos + n) k' (VStr l :: acc)
    end
  end.

Definition s_write1 (app : bool) (cp : bytes * Z) (s : bytes) : bytes * Z :=
  let (c, pos) := cp in
  match s with
  | [] => (c, pos)
  | _ => if app then (c ++ s, len c + len s) else (write_at c pos s, pos + len s)
  end.

Definition seek_target (w : whence) (off pos size : Z) : Z :=
  match w with WSet => off | WCur => pos + off | WEnd => size + off end.

(* flush/setvbuf succeed on every open handle (fflush/setvbuf on a stream that is only read). *)
Definition sstep (crlf : bool) (c : bytes) (h : shandle) (o : op) : bytes * shandle * res :=
  if s_closed h then (c, h, RRaise) else
  match o with
  | ORead fs =>
    if negb (s_rd h) then (c, h, RFail) else
    let (r, p) := s_reads crlf c (s_pos h) fs [] in (c, s_setpos h p, r)
  | OLines k =>
    if negb (s_rd h) then (c, h, RFail) else
    let (l, p) := s_lines crlf c (s_pos h) k [] in (c, s_setpos h p, RVals l)
  | ONext k =>
    (* a step of an iterator made before is an operation on the handle like any other *)
    if negb (s_rd h) then (c, h, RUnsupported) else
    let (l, p) := s_lines crlf c (s_pos h) k [] in (c, s_setpos h p, RVals l)
  | OWrite ss =>
    if negb (s_wr h) then (c, h, RFail) else
    let (c', p) := fold_left (s_write1 (s_app h)) ss (c, s_pos h) in (c', s_setpos h p, RTrue)
  | OSeek w off =>
    let np := seek_target w off (s_pos h) (len c) in
    if np <? 0 then (c, h, RFail) else (c, s_setpos h np, ROff np)
  | OFlush => (c, h, RTrue)
  | OSetvbuf _ _ => (c, h, RTrue)
  | OClose => (c, mkS (s_pos h) (s_rd h) (s_wr h) (s_app h) true, RTrue)
  end.

Fixpoint srun (crlf : bool) (c : bytes) (h : shandle) (ops : list op) : bytes * shandle * list res :=
  match ops with
  | [] => (c, h, [])
  | o :: ops' =>
    let '(c1, h1, r) := sstep crlf c h o in
    let '(c2, h2, rs) := srun crlf c1 h1 ops' in (c2, h2, r :: rs)
  end.

(* ---------- opening ---------- *)
Inductive omode := MR | MW | MA | MRp | MWp | MAp.

Definition mode_rd (m : omode) : bool := match m with MW | MA => false | _ => true end.
Definition mode_wr (m : omode) : bool := match m with MR => false | _ => true end.
Definition mode_app (m : omode) : bool := match m with MA | MAp => true | _ => false end.
Definition mode_trunc (m : omode) : bool := match m with MW | MWp => true | _ => false end.

(* the file exists; where an append-mode handle starts is implementation-defined in ISO C:
   0, as the descriptor does *)
Definition s_open (m : omode) (c : bytes) : bytes * shandle :=
  (if mode_trunc m then [] else c, mkS 0 (mode_rd m) (mode_wr m) (mode_app m) false).
