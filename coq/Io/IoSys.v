(* C19 — several handles on one file: the system-level runs of the specification and of the
   implementation model, the discipline (ISO C 7.19.5.3 as the property words it) and the
   comparison of results.  No proofs in this file. *)
From GL Require Import Common.Bytes Io.IoSpec Io.IoImpl.

Inductive sop :=
| SOpen (m : omode)            (* io.open(path, mode): the new handle gets the next index *)
| SOp (i : nat) (o : op)       (* a method of handle i *)
| SSnap                        (* the harness reads the file's bytes *)
| SCloseAll                    (* LState.Close: every handle still open is flushed and closed *)
| SStdClose                    (* io.stdout:close() / io.stderr:close(): refused, nothing happens *)
| SDevFull                     (* a buffered handle on /dev/full is closed: the flush fails, close returns nil, message
                                  (and gives the descriptor back: checked by the harness) *)
| SStdWrite                    (* io.stderr:setvbuf("full"); io.stderr:write(s): no effect on the file
                                  (that the bytes arrive by the end of the state is checked by the harness) *)
| SIoLines.                    (* for l in io.lines(path): all lines through a fresh handle *)

Fixpoint upd_nth {A} (l : list A) (i : nat) (x : A) : list A :=
  match l, i with
  | [], _ => []
  | _ :: t, O => x :: t
  | a :: t, S j => a :: upd_nth t j x
  end.

(* ---------- implementation ---------- *)
Section Chunk.
Variable ch : Z -> Z -> Z -> Z.

Definition isys_step (st : bytes * list ihandle) (o : sop) : bytes * list ihandle * res :=
  let (disk, hs) := st in
  match o with
  | SOpen m => let (d', h) := i_open m disk in (d', hs ++ [h], RTrue)
  | SOp i o' =>
    match nth_error hs i with
    | None => (disk, hs, RUnsupported)
    | Some h => let '(d', h', r) := istep ch disk h o' in (d', upd_nth hs i h', r)
    end
  | SSnap => (disk, hs, RBytes disk)
  | SStdClose => (disk, hs, RFail)
  | SStdWrite => (disk, hs, RTrue)
  | SDevFull => (disk, hs, RFail)
  | SCloseAll =>
    let (d', hs') := fold_left (fun (st : bytes * list ihandle) h =>
                                  let (d, acc) := st in
                                  if i_closed h then (d, acc ++ [h])
                                  else let '(d1, h1, _) := istep ch d h OClose in (d1, acc ++ [h1]))
                               hs (disk, []) in
    (d', hs', RTrue)
  | SIoLines =>
    let (d', h) := i_open MR disk in
    let (_, r) := ilines ch d' h (S (length d')) [] in (disk, hs, r)
  end.

Fixpoint isys_run (st : bytes * list ihandle) (ops : list sop) : list res :=
  match ops with
  | [] => []
  | o :: ops' => let '(d, hs, r) := isys_step st o in r :: isys_run (d, hs) ops'
  end.
End Chunk.

(* ---------- specification ---------- *)
Definition ssys_step (crlf : bool) (st : bytes * list shandle) (o : sop) : bytes * list shandle * res :=
  let (c, hs) := st in
  match o with
  | SOpen m => let (c', h) := s_open m c in (c', hs ++ [h], RTrue)
  | SOp i o' =>
    match nth_error hs i with
    | None => (c, hs, RUnsupported)
    | Some h => let '(c', h', r) := sstep crlf c h o' in (c', upd_nth hs i h', r)
    end
  | SSnap => (c, hs, RBytes c)
  | SStdClose => (c, hs, RFail)
  | SStdWrite => (c, hs, RTrue)
  | SDevFull => (c, hs, RFail)
  | SCloseAll =>
    let (c', hs') := fold_left (fun (st : bytes * list shandle) h =>
                                  let (d, acc) := st in
                                  let '(d1, h1, _) := sstep crlf d h OClose in (d1, acc ++ [h1]))
                               hs (c, []) in
    (c', hs', RTrue)
  | SIoLines => let (l, _) := s_lines crlf c 0 (S (length c)) [] in (c, hs, RVals l)
  end.

(* ---------- comparison of results ---------- *)
(* m * 2^e (53-bit m) is a binary64 nearest to n / 10^k *)
Definition num_match (n k m e : Z) : bool :=
  if m =? 0 then n =? 0 else
  if 0 <=? e then Z.abs (m * 2 ^ e * 10 ^ k - n) * 2 <=? 2 ^ e * 10 ^ k
  else Z.abs (m * 10 ^ k - n * 2 ^ (- e)) * 2 <=? 10 ^ k.

Definition val_match (a b : val) : bool :=
  match a, b with
  | VNil, VNil => true
  | VStr x, VStr y => beqb x y
  | VNum n k, VDy m e => num_match n k m e
  | VNum n k, VNum n' k' => (n =? n') && (k =? k')
  | _, _ => false
  end.

(* model result against observed result, exactly *)
Definition res_match (a b : res) : bool :=
  match a, b with
  | RVals x, RVals y => list_eqb val_match x y
  | RFail, RFail => true
  | RTrue, RTrue => true
  | ROff x, ROff y => x =? y
  | RRaise, RRaise => true
  | RBytes x, RBytes y => beqb x y
  | _, _ => false
  end.

(* against the specification: where Lua 5.1 returns a single nil the code may add a message *)
Definition res_match_spec (s o : res) : bool :=
  res_match s o ||
  match s, o with
  | RVals [VNil], RFail => true
  | _, _ => false
  end.

(* ---------- discipline ---------- *)
Inductive lastop := LNone | LRead | LWrite.
Definition is_LWrite (l : lastop) : bool := match l with LWrite => true | _ => false end.
Definition is_LRead (l : lastop) : bool := match l with LRead => true | _ => false end.

(* one handle: a positioning op or flush between a read and a following write (the property's
   wording; a read after a write needs nothing: the code writes pending bytes out first) *)
Definition disc1_step (l : lastop) (o : op) : option lastop :=
  match o with
  | ORead _ | OLines _ | ONext _ => Some LRead
  | OWrite _ => if is_LRead l then None else Some LWrite
  | OSeek _ _ | OFlush => Some LNone
  | OSetvbuf _ _ => Some l
  | OClose => Some LNone
  end.

Fixpoint disc1 (l : lastop) (ops : list op) : bool :=
  match ops with
  | [] => true
  | o :: ops' => match disc1_step l o with None => false | Some l' => disc1 l' ops' end
  end.

(* several handles: a handle is used only while the others hold no unflushed write, and a handle
   does not read through a read-ahead taken before another handle changed the file
   ([t_stale]; a seek or a write of its own gives the read-ahead up). *)
(* [t_dirty]: a write not yet followed by flush, seek or close (the property promises visibility
   to other readers only after flush/close; seek flushes too in any stdio) *)
Record trk := mkT { t_open : bool; t_last : lastop; t_stale : bool; t_dirty : bool }.

Definition synced (t : trk) : bool := negb (t_open t) || negb (t_dirty t).

Fixpoint others_synced (ts : list trk) (i : nat) : bool :=
  match ts with
  | [] => true
  | t :: ts' =>
    match i with
    | O => forallb synced ts'
    | S j => synced t && others_synced ts' j
    end
  end.

Definition mark_stale (t : trk) : trk := mkT (t_open t) (t_last t) true (t_dirty t).

Fixpoint stale_others (ts : list trk) (i : nat) (x : trk) : list trk :=
  match ts with
  | [] => []
  | t :: ts' =>
    match i with
    | O => x :: map mark_stale ts'
    | S j => mark_stale t :: stale_others ts' j x
    end
  end.

Definition disc_sys_step (ts : list trk) (o : sop) : option (list trk) :=
  match o with
  | SOpen m =>
    if forallb synced ts
    then Some ((if mode_trunc m then map mark_stale ts else ts) ++ [mkT true LNone false false])
    else None
  | SIoLines => if forallb synced ts then Some ts else None
  | SSnap => Some ts
  | SStdClose => Some ts
  | SStdWrite => Some ts
  | SDevFull => Some ts
  | SCloseAll => Some (map (fun _ => mkT false LNone false false) ts)
  | SOp i o' =>
    match nth_error ts i with
    | None => None
    | Some t =>
      if negb (others_synced ts i) then None else
      if negb (t_open t) then Some ts else
      match o' with
      | ORead _ | OLines _ | ONext _ =>
        if t_stale t then None
        else Some (upd_nth ts i (mkT true LRead false (t_dirty t)))
      | OWrite _ =>
        if is_LRead (t_last t) then None
        else Some (stale_others ts i (mkT true LWrite false true))
      | OSeek _ _ => Some (upd_nth ts i (mkT true LNone false false))
      | OFlush => Some (upd_nth ts i (mkT true LNone (t_stale t) false))
      | OSetvbuf _ _ => Some ts
      | OClose => Some (upd_nth ts i (mkT false LNone false false))
      end
    end
  end.

(* The property evaluated on an observed history: run the specification along the observations
   for as long as the history is disciplined; a snapshot is compared only while no handle holds
   an unflushed write.  What follows a breach of the discipline is not constrained. *)
Fixpoint spec_check (crlf : bool) (st : bytes * list shandle) (ts : list trk)
         (ops : list sop) (obs : list res) : bool :=
  match ops, obs with
  | [], [] => true
  | o :: ops', r :: obs' =>
    match disc_sys_step ts o with
    | None => true
    | Some ts' =>
      let '(c, hs, rs) := ssys_step crlf st o in
      let ok := match o with
                | SSnap => if forallb synced ts then res_match rs r else true
                | _ => res_match_spec rs r
                end in
      ok && spec_check crlf (c, hs) ts' ops' obs'
    end
  | _, _ => false
  end.

Fixpoint all_match (ms os : list res) : bool :=
  match ms, os with
  | [], [] => true
  | m :: ms', o :: os' => res_match m o && all_match ms' os'
  | _, _ => false
  end.
