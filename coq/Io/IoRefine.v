(* C19 — refinement: the buffered handle of iolib.go behaves as the cursor of IoSpec. *)
From GL Require Import Common.Bytes Common.BytesFacts Io.IoSpec Io.IoImpl Io.IoSys
  Io.IoBytesFacts Io.IoReadFacts Io.IoLineFacts Io.IoNumFacts.
From Coq Require Import Lia ZifyBool.

Ltac len0 := change (len (@nil Z)) with 0 in *.
Ltac len0g := change (len (@nil Z)) with 0.
Ltac simp_h := cbn [ofs rbuf wb i_rd i_wr i_app i_closed tick upd_w upd_r upd_closed].

Definition Inv (disk : bytes) (h : ihandle) : Prop :=
  Rinv disk h /\
  (i_rd h = false -> rbuf h = []) /\
  (pending h <> [] -> rbuf h = []) /\
  (i_wr h = false -> wb h = None) /\
  (i_closed h = true -> pending h = [] /\ rbuf h = []).

Lemma fd_write_eq app disk o s : fd_write app disk o s = s_write1 app (disk, o) s.
Proof. reflexivity. Qed.

Lemma abs_view_nopending disk h : pending h = [] -> abs_view disk h = (disk, pos h).
Proof. intros P. unfold abs_view. rewrite P. reflexivity. Qed.

Lemma Rinv_nobuf disk h : rbuf h = [] -> 0 <= ofs h -> Rinv disk h.
Proof.
  intros E O. unfold Rinv, pos, rem. rewrite E; len0. cbn [app].
  split; [lia|]. split; [f_equal; lia|unfold RBUF; lia].
Qed.

Lemma firstn_clip {A} (l : list A) (n : Z) :
  firstn (Z.to_nat (Z.min n (len l))) l = firstn (Z.to_nat n) l.
Proof.
  destruct (Z_le_gt_dec n (len l)) as [H|H].
  - rewrite Z.min_l by exact H. reflexivity.
  - rewrite Z.min_r by lia. rewrite to_nat_len, firstn_all. symmetry. apply firstn_all2. unfold len in H. lia.
Qed.

Section Refine.
Variable ch : Z -> Z -> Z -> Z.

(* ---------- reads ---------- *)
Lemma iread1_spec disk h f h' r : Rinv disk h -> iread1 ch disk h f = (h', r) ->
  match s_read1 true disk (pos h) f with
  | None => r = RdUnsup
  | Some (v, p') =>
    Rinv disk h' /\ pos h' = p' /\ same_frame h h' /\
    r = RdV v
  end.
Proof.
  intros I E. pose proof I as (I0 & I1 & I2).
  assert (FU : (length (rem disk h) < S (length (rbuf h) + length disk))%nat).
  { pose proof (rem_length_le disk h). lia. }
  unfold s_read1. rewrite !I1. destruct f as [n| | |]; cbn [iread1] in E.
  - (* count *)
    destruct (n =? 0) eqn:N1.
    + destruct (peekb ch disk h) as [h1 c] eqn:P. injection E as <- <-.
      destruct (peekb_spec ch disk h h1 c I P) as (A & C & _).
      assert (n = 0) by lia. subst n.
      destruct (rem disk h) as [|b t] eqn:ER; cbn [hd_error] in C; subst c.
      * split; [eapply adv_by_Rinv; eauto|]. destruct A as (_ & _ & P0 & _ & _ & SF).
        split; [lia|]. split; [exact SF|reflexivity].
      * change (0 <? 0) with false. cbv iota zeta. rewrite firstn_clip. cbn [Z.to_nat firstn].
        split; [eapply adv_by_Rinv; eauto|]. destruct A as (_ & _ & P0 & _ & _ & SF).
        split; [len0; lia|]. split; [exact SF|reflexivity].
    + set (want := if n <? 0 then RCHUNK * (len (rbuf h) + len disk + 1) else n) in *.
      assert (LR : len (rem disk h) <= len (rbuf h) + len disk).
      { pose proof (rem_length_le disk h). unfold len. lia. }
      assert (W0 : 0 < want).
      { unfold want. destruct (n <? 0) eqn:N0; [|lia].
        pose proof (len_nonneg (rbuf h)). pose proof (len_nonneg disk). unfold RCHUNK. lia. }
      destruct (readSize_spec ch disk _ h want [] I FU) as (h1 & eof & RS & A & EO).
      rewrite RS in E. injection E as <- <-. cbn [app] in *.
      pose proof A as (_ & _ & P0 & _ & _ & SF).
      destruct (rem disk h) as [|b t] eqn:ER.
      * rewrite firstn_nil in *. len0.
        assert (eof = true) by (apply EO; lia). subst eof.
        split; [eapply adv_by_Rinv; eauto|]. split; [lia|]. split; [exact SF|reflexivity].
      * cbv zeta.
        assert (FE : firstn (Z.to_nat (if n <? 0 then len (b :: t) else Z.min n (len (b :: t)))) (b :: t)
                     = firstn (Z.to_nat want) (b :: t)).
        { unfold want. destruct (n <? 0) eqn:N0.
          - rewrite to_nat_len, firstn_all. symmetry. apply firstn_all2.
            pose proof (len_nonneg (rbuf h)). pose proof (len_nonneg disk). unfold RCHUNK, len in *. lia.
          - apply firstn_clip. }
        rewrite FE.
        split; [eapply adv_by_Rinv; eauto|]. split; [exact P0|]. split; [exact SF|].
        destruct (Z.to_nat want) eqn:EN; [lia|]. reflexivity.
  - (* line *)
    assert (FL : (length (rem disk h) + 2 <= line_fuel disk h)%nat).
    { unfold line_fuel. pose proof (rem_length_le disk h). lia. }
    destruct (readBLine_spec ch disk _ h [] I FL) as (h1 & RB & A).
    rewrite RB in E. injection E as <- <-. cbn [app] in *.
    pose proof A as (_ & _ & P0 & _ & _ & SF).
    unfold line_of. destruct (rem disk h) as [|b t] eqn:ER.
    + cbn [take_line fst snd] in *. split; [eapply adv_by_Rinv; eauto|]. split; [len0; lia|].
      split; [exact SF|reflexivity].
    + destruct (take_line (b :: t)) as [l nl]. cbn [fst snd andb] in *.
      split; [eapply adv_by_Rinv; eauto|]. split; [exact P0|]. split; [exact SF|reflexivity].
  - (* all *)
    injection E as <- <-. pose proof (Rinv_ofs disk h I) as Ho.
    split; [|split; [|split]].
    + apply Rinv_nobuf; [reflexivity|]. cbn [ofs upd_r]. lia.
    + unfold pos at 1. cbn [ofs rbuf upd_r]. len0.
      unfold rem. rewrite len_app, len_rest by exact Ho. unfold pos. lia.
    + apply same_frame_upd_r.
    + reflexivity.
  - (* number *)
    destruct (scanNum_spec ch disk h I) as (h1 & SN & NA). rewrite SN in E.
    destruct (scan_num (rem disk h)) as [n|n|n v k|]; injection E as <- <-; cbn [num_adv] in NA;
      try reflexivity;
      (pose proof NA as (_ & _ & P0 & _ & _ & SF);
       split; [eapply adv_by_Rinv; eauto|]; split; [exact P0|]; split; [exact SF|]).
    + reflexivity.
    + reflexivity.
    + reflexivity.
Qed.

Lemma ireads_spec disk : forall fs h acc h' r r' p',
  Rinv disk h ->
  ireads ch disk h fs acc = (h', r) -> s_reads true disk (pos h) fs acc = (r', p') ->
  r' <> RUnsupported ->
  r = r' /\ Rinv disk h' /\ pos h' = p' /\ same_frame h h'.
Proof.
  induction fs as [|f fs IH]; intros h acc h' r r' p' I EI ES NU.
  - cbn in EI, ES. injection EI as <- <-. injection ES as <- <-.
    split; [reflexivity|]. split; [exact I|]. split; [reflexivity|apply same_frame_refl].
  - cbn [ireads s_reads] in EI, ES.
    destruct (iread1 ch disk h f) as [h1 r1] eqn:E1.
    pose proof (iread1_spec disk h f h1 r1 I E1) as SP.
    destruct (s_read1 true disk (pos h) f) as [[v p1]|].
    2:{ injection ES as <- <-. congruence. }
    destruct SP as (I1 & P1 & SF & ->).
    destruct v.
    + injection EI as <- <-. injection ES as <- <-. auto.
    + subst p1. destruct (IH h1 _ _ _ _ _ I1 EI ES NU) as (? & ? & ? & SF2).
      split; [auto|]. split; [auto|]. split; [auto|]. eapply same_frame_trans; eauto.
    + subst p1. destruct (IH h1 _ _ _ _ _ I1 EI ES NU) as (? & ? & ? & SF2).
      split; [auto|]. split; [auto|]. split; [auto|]. eapply same_frame_trans; eauto.
    + subst p1. destruct (IH h1 _ _ _ _ _ I1 EI ES NU) as (? & ? & ? & SF2).
      split; [auto|]. split; [auto|]. split; [auto|]. eapply same_frame_trans; eauto.
Qed.

Lemma ilines_spec disk : forall k h acc h' r l p',
  Rinv disk h -> ilines ch disk h k acc = (h', r) -> s_lines true disk (pos h) k acc = (l, p') ->
  r = RVals l /\ Rinv disk h' /\ pos h' = p' /\ same_frame h h'.
Proof.
  induction k as [|k IH]; intros h acc h' r l p' I EI ES.
  - cbn in EI, ES. injection EI as <- <-. injection ES as <- <-.
    split; [reflexivity|]. split; [exact I|]. split; [reflexivity|apply same_frame_refl].
  - cbn [ilines s_lines] in EI, ES. pose proof I as (I0 & I1 & I2).
    assert (FL : (length (rem disk h) + 2 <= line_fuel disk h)%nat).
    { unfold line_fuel. pose proof (rem_length_le disk h). lia. }
    destruct (readBLine_spec ch disk _ h [] I FL) as (h1 & RB & A).
    rewrite RB in EI. cbn [app] in *. rewrite I1 in ES. unfold line_of in ES.
    pose proof A as (_ & _ & P0 & _ & _ & SF).
    assert (I1' : Rinv disk h1) by (eapply adv_by_Rinv; eauto).
    destruct (rem disk h) as [|b t] eqn:ER.
    + injection EI as <- <-. injection ES as <- <-. cbn [take_line fst snd] in P0. len0.
      split; [reflexivity|]. split; [exact I1'|]. split; [lia|exact SF].
    + destruct (take_line (b :: t)) as [l0 nl]. cbn [fst snd andb] in *.
      rewrite <- P0 in ES.
      destruct (IH h1 _ _ _ _ _ I1' EI ES) as (-> & ? & ? & SF2).
      split; [reflexivity|]. split; [auto|]. split; [auto|]. eapply same_frame_trans; eauto.
Qed.

(* ---------- writes ---------- *)
Lemma iwrite1_abs d h s d' h' : rbuf h = [] -> 0 <= ofs h -> iwrite1 (d, h) s = (d', h') ->
  rbuf h' = [] /\ 0 <= ofs h' /\
  i_rd h' = i_rd h /\ i_wr h' = i_wr h /\ i_app h' = i_app h /\ i_closed h' = i_closed h /\
  (wb h = None -> wb h' = None) /\
  abs_view d' h' = s_write1 (i_app h) (abs_view d h) s.
Proof.
  intros E O W. unfold iwrite1 in W. unfold abs_view at 2. rewrite E; len0; rewrite Z.sub_0_r.
  destruct (wb h) as [[buf cap]|] eqn:EW.
  - assert (PH : pending h = buf) by (unfold pending; rewrite EW; reflexivity). rewrite PH.
    unfold bw_write in W. rewrite !fd_write_eq in W.
    assert (POS : forall x, 0 <= snd (s_write1 (i_app h) (d, ofs h) x)) by (intros; apply s_write1_pos_nonneg; exact O).
    destruct (len s <=? cap - len buf).
    + injection W as <- <-. simp_h. rewrite E. split; [reflexivity|]. split; [exact O|].
      do 4 (split; [reflexivity|]). split; [discriminate|].
      unfold abs_view, pending. simp_h. rewrite E; len0; rewrite Z.sub_0_r. symmetry. apply s_write1_app; exact O.
    + destruct buf as [|b0 buf'].
      * destruct (s_write1 (i_app h) (d, ofs h) s) as [d1 o1] eqn:E1. injection W as <- <-.
        pose proof (POS s) as P1. rewrite E1 in P1. cbn [snd] in P1.
        simp_h. rewrite E. split; [reflexivity|]. split; [exact P1|].
        do 4 (split; [reflexivity|]). split; [discriminate|].
        unfold abs_view, pending. simp_h. rewrite E; len0; rewrite Z.sub_0_r.
        rewrite !s_write1_nil. symmetry; exact E1.
      * set (buf := b0 :: buf') in *. set (n := Z.to_nat (cap - len buf)) in *.
        destruct (s_write1 (i_app h) (d, ofs h) (buf ++ firstn n s)) as [d1 o1] eqn:E1.
        pose proof (POS (buf ++ firstn n s)) as P1. rewrite E1 in P1. cbn [snd] in P1.
        assert (SPL : s_write1 (i_app h) (s_write1 (i_app h) (d, ofs h) buf) s
                      = s_write1 (i_app h) (d1, o1) (skipn n s)).
        { rewrite s_write1_app by exact O. rewrite <- E1. rewrite s_write1_app by exact O.
          rewrite <- app_assoc, firstn_skipn. reflexivity. }
        destruct (len (skipn n s) <=? cap).
        -- injection W as <- <-. simp_h. rewrite E. split; [reflexivity|]. split; [exact P1|].
           do 4 (split; [reflexivity|]). split; [discriminate|].
           unfold abs_view, pending. simp_h. rewrite E; len0; rewrite Z.sub_0_r. symmetry. exact SPL.
        -- rewrite fd_write_eq in W.
           destruct (s_write1 (i_app h) (d1, o1) (skipn n s)) as [d2 o2] eqn:E2. injection W as <- <-.
           assert (P2 : 0 <= o2).
           { pose proof (s_write1_pos_nonneg (i_app h) d1 o1 (skipn n s) P1) as X. rewrite E2 in X. exact X. }
           simp_h. rewrite E. split; [reflexivity|]. split; [exact P2|].
           do 4 (split; [reflexivity|]). split; [discriminate|].
           unfold abs_view, pending. simp_h. rewrite E; len0; rewrite Z.sub_0_r. symmetry. exact SPL.
  - assert (PH : pending h = []) by (unfold pending; rewrite EW; reflexivity). rewrite PH.
    rewrite fd_write_eq in W. rewrite (s_write1_nil (i_app h) (d, ofs h)).
    destruct (s_write1 (i_app h) (d, ofs h) s) as [d1 o1] eqn:E1. injection W as <- <-.
    pose proof (s_write1_pos_nonneg (i_app h) d (ofs h) s O) as P1. rewrite E1 in P1. cbn [snd] in P1.
    simp_h. rewrite E. split; [reflexivity|]. split; [exact P1|].
    do 4 (split; [reflexivity|]). split; [reflexivity|].
    unfold abs_view, pending. simp_h. rewrite E; len0; rewrite Z.sub_0_r. reflexivity.
Qed.

Lemma iwrites_abs : forall ss d h d' h', rbuf h = [] -> 0 <= ofs h ->
  fold_left iwrite1 ss (d, h) = (d', h') ->
  rbuf h' = [] /\ 0 <= ofs h' /\
  i_rd h' = i_rd h /\ i_wr h' = i_wr h /\ i_app h' = i_app h /\ i_closed h' = i_closed h /\
  (wb h = None -> wb h' = None) /\
  abs_view d' h' = fold_left (s_write1 (i_app h)) ss (abs_view d h).
Proof.
  induction ss as [|s ss IH]; intros d h d' h' E O F.
  - cbn in F. injection F as <- <-. repeat split; auto.
  - cbn [fold_left] in F |- *. destruct (iwrite1 (d, h) s) as [d1 h1] eqn:W.
    destruct (iwrite1_abs d h s d1 h1 E O W) as (E1 & O1 & A1 & A2 & A3 & A4 & A5 & AV).
    destruct (IH d1 h1 d' h' E1 O1 F) as (E2 & O2 & B1 & B2 & B3 & B4 & B5 & BV).
    rewrite A3 in BV. rewrite AV in BV.
    repeat split; try congruence; auto.
Qed.

Lemma abandon_abs disk h : Inv disk h ->
  rbuf (abandon h) = [] /\ 0 <= ofs (abandon h) /\ abs_view disk (abandon h) = abs_view disk h /\
  wb (abandon h) = wb h /\ i_rd (abandon h) = i_rd h /\ i_wr (abandon h) = i_wr h /\
  i_app (abandon h) = i_app h /\ i_closed (abandon h) = i_closed h.
Proof.
  intros (I & NR & _). pose proof I as (I0 & _). unfold pos in I0. unfold abandon. destruct (i_rd h) eqn:RD.
  - unfold abs_view, pending. simp_h. len0. rewrite Z.sub_0_r, RD.
    split; [reflexivity|]. split; [exact I0|]. split; [reflexivity|]. repeat split; try reflexivity; try exact RD.
  - pose proof (NR eq_refl) as E. rewrite E in I0. len0.
    split; [exact E|]. split; [lia|]. repeat split; try reflexivity; exact RD.
Qed.

Lemma iflush_abs disk h d1 h1 : Inv disk h -> iflush disk h = (d1, h1) ->
  abs_view d1 h1 = abs_view disk h /\ pending h1 = [] /\ Inv d1 h1 /\
  i_rd h1 = i_rd h /\ i_wr h1 = i_wr h /\ i_app h1 = i_app h /\ i_closed h1 = i_closed h /\
  (wb h = None -> wb h1 = None).
Proof.
  intros IV F. pose proof IV as (I & NR & PB & NW & CL). unfold iflush in F.
  destruct (wb h) as [[buf cap]|] eqn:EW.
  - rewrite fd_write_eq in F. destruct buf as [|b0 buf'].
    + cbn in F. injection F as <- <-.
      assert (PH : pending h = []) by (unfold pending; rewrite EW; reflexivity).
      split; [unfold abs_view, pending; cbn; rewrite EW; reflexivity|]. split; [reflexivity|].
      split; [|repeat split; auto; discriminate].
      unfold Inv. cbn. split; [exact I|]. split; [exact NR|]. split; [intros X; exfalso; apply X; reflexivity|].
      split; [intros X; discriminate (NW X)|]. intros X. split; [reflexivity|apply CL; exact X].
    + set (buf := b0 :: buf') in *.
      assert (PH : pending h = buf) by (unfold pending; rewrite EW; reflexivity).
      assert (RB : rbuf h = []) by (apply PB; rewrite PH; discriminate).
      pose proof (Rinv_ofs disk h I) as O.
      destruct (s_write1 (i_app h) (disk, ofs h) buf) as [d' o'] eqn:E1. injection F as <- <-.
      pose proof (s_write1_pos_nonneg (i_app h) disk (ofs h) buf O) as P1. rewrite E1 in P1. cbn [snd] in P1.
      split.
      { unfold abs_view at 2. rewrite PH, RB; len0; rewrite Z.sub_0_r, E1.
        unfold abs_view, pending. cbn. rewrite RB; len0; rewrite Z.sub_0_r. reflexivity. }
      split; [reflexivity|]. split; [|repeat split; auto; discriminate].
      unfold Inv. cbn. split; [apply Rinv_nobuf; [exact RB|exact P1]|].
      split; [exact NR|]. split; [intros _; exact RB|].
      split; [intros X; discriminate (NW X)|]. intros X. split; [reflexivity|exact RB].
  - injection F as <- <-.
    assert (PH : pending h = []) by (unfold pending; rewrite EW; reflexivity).
    split; [reflexivity|]. split; [exact PH|]. split; [exact IV|]. repeat split; auto.
Qed.

(* ---------- one step ---------- *)
Lemma abs_eta disk h : (abs_content disk h, abs_pos disk h) = abs_view disk h.
Proof. unfold abs_content, abs_pos. destruct (abs_view disk h); reflexivity. Qed.

Lemma Inv_nobuf d h : rbuf h = [] -> 0 <= ofs h ->
  (i_wr h = false -> wb h = None) -> (i_closed h = true -> pending h = []) -> Inv d h.
Proof.
  intros E O NW CL. unfold Inv. split; [apply Rinv_nobuf; assumption|].
  split; [intros _; exact E|]. split; [intros _; exact E|]. split; [exact NW|].
  intros X. split; [apply CL; exact X|exact E].
Qed.

Lemma step_sim disk h l l' o d' h' r c' s' r' :
  Inv disk h -> (l = LNone -> pending h = []) ->
  disc1_step l o = Some l' ->
  istep ch disk h o = (d', h', r) ->
  sstep true (abs_content disk h) (abs_h disk h) o = (c', s', r') ->
  r' <> RUnsupported ->
  Inv d' h' /\ (l' = LNone -> pending h' = []) /\
  c' = abs_content d' h' /\ s' = abs_h d' h' /\ r = r'.
Proof.
  intros IV LP D EI ES NU. pose proof IV as (I & NR & PB & NW & CL).
  unfold istep in EI. unfold sstep in ES. cbn [s_closed abs_h] in ES.
  destruct (i_closed h) eqn:C.
  { destruct (CL eq_refl) as (P0 & RB0).
    assert (EI2 : (disk, h, RRaise) = (d', h', r)) by (destruct o; try exact EI; rewrite RB0 in EI; exact EI).
    injection EI2 as <- <- <-. injection ES as <- <- <-.
    split; [exact IV|]. split; [intros _; exact P0|]. split; [reflexivity|]. split; [reflexivity|reflexivity]. }
  destruct o as [fs|k|k|ss|w off| |m size|]; cbn [s_rd s_wr s_app s_pos abs_h] in ES.
  - (* read *)
    cbn in D. injection D as <-.
    destruct (i_rd h) eqn:RD; cbn [negb] in EI, ES.
    2:{ injection EI as <- <- <-. injection ES as <- <- <-.
        split; [exact IV|]. split; [discriminate|]. split; [reflexivity|]. split; reflexivity. }
    destruct (iflush disk h) as [d1 hf] eqn:FL.
    destruct (iflush_abs disk h d1 hf IV FL) as (AVf & P0 & IVf & G1 & G2 & G3 & G4 & G5).
    pose proof IVf as (If & NRf & PBf & NWf & CLf).
    pose proof (abs_view_nopending d1 hf P0) as AV.
    assert (AC : abs_content disk h = d1) by (unfold abs_content; rewrite <- AVf, AV; reflexivity).
    assert (AP : abs_pos disk h = pos hf) by (unfold abs_pos; rewrite <- AVf, AV; reflexivity).
    rewrite AC, AP in ES.
    destruct (ireads ch d1 hf fs []) as [h1 r1] eqn:E1. injection EI as <- <- <-.
    destruct (s_reads true d1 (pos hf) fs []) as [r2 p2] eqn:E2. injection ES as <- <- <-.
    destruct (ireads_spec d1 fs hf [] h1 r1 r2 p2 If E1 E2 NU) as (-> & I1 & P1 & (F1 & F2 & F3 & F4 & F5)).
    assert (P1' : pending h1 = []) by (unfold pending in *; rewrite F1; exact P0).
    pose proof (abs_view_nopending d1 h1 P1') as AV1.
    split.
    { unfold Inv. split; [exact I1|]. split; [rewrite F2, G1, RD; discriminate|].
      split; [rewrite P1'; congruence|]. split; [rewrite F3, F1; exact NWf|]. rewrite F5, G4, C. discriminate. }
    split; [discriminate|].
    split; [unfold abs_content; rewrite AV1; reflexivity|].
    split; [|reflexivity].
    unfold abs_h, s_setpos, abs_pos. rewrite AV1. cbn. rewrite P1, F2, F3, F4, F5, G1, G2, G3, G4, RD, C. reflexivity.
  - (* lines *)
    cbn in D. injection D as <-.
    destruct (i_rd h) eqn:RD; cbn [negb] in EI, ES.
    2:{ injection EI as <- <- <-. injection ES as <- <- <-.
        split; [exact IV|]. split; [discriminate|]. split; [reflexivity|]. split; reflexivity. }
    destruct k as [|k'].
    { injection EI as <- <- <-. cbn in ES. injection ES as <- <- <-.
      split; [exact IV|]. split; [discriminate|]. split; [reflexivity|]. split; reflexivity. }
    cbv beta iota in EI. set (k := S k') in *.
    destruct (iflush disk h) as [d1 hf] eqn:FL.
    destruct (iflush_abs disk h d1 hf IV FL) as (AVf & P0 & IVf & G1 & G2 & G3 & G4 & G5).
    pose proof IVf as (If & NRf & PBf & NWf & CLf).
    pose proof (abs_view_nopending d1 hf P0) as AV.
    assert (AC : abs_content disk h = d1) by (unfold abs_content; rewrite <- AVf, AV; reflexivity).
    assert (AP : abs_pos disk h = pos hf) by (unfold abs_pos; rewrite <- AVf, AV; reflexivity).
    rewrite AC, AP in ES.
    destruct (ilines ch d1 hf k []) as [h1 r1] eqn:E1. injection EI as <- <- <-.
    destruct (s_lines true d1 (pos hf) k []) as [r2 p2] eqn:E2. injection ES as <- <- <-.
    destruct (ilines_spec d1 k hf [] h1 r1 r2 p2 If E1 E2) as (-> & I1 & P1 & (F1 & F2 & F3 & F4 & F5)).
    assert (P1' : pending h1 = []) by (unfold pending in *; rewrite F1; exact P0).
    pose proof (abs_view_nopending d1 h1 P1') as AV1.
    split.
    { unfold Inv. split; [exact I1|]. split; [rewrite F2, G1, RD; discriminate|].
      split; [rewrite P1'; congruence|]. split; [rewrite F3, F1; exact NWf|]. rewrite F5, G4, C. discriminate. }
    split; [discriminate|].
    split; [unfold abs_content; rewrite AV1; reflexivity|].
    split; [|reflexivity].
    unfold abs_h, s_setpos, abs_pos. rewrite AV1. cbn. rewrite P1, F2, F3, F4, F5, G1, G2, G3, G4, RD, C. reflexivity.
  - (* a step of an earlier iterator *)
    cbn in D. injection D as <-.
    destruct (i_rd h) eqn:RD; cbn [negb] in EI, ES.
    2:{ injection ES as _ _ <-. congruence. }
    destruct k as [|k'].
    { injection EI as <- <- <-. cbn in ES. injection ES as <- <- <-.
      split; [exact IV|]. split; [discriminate|]. split; [reflexivity|]. split; reflexivity. }
    cbv beta iota in EI. set (k := S k') in *.
    destruct (iflush disk h) as [d1 hf] eqn:FL.
    destruct (iflush_abs disk h d1 hf IV FL) as (AVf & P0 & IVf & G1 & G2 & G3 & G4 & G5).
    pose proof IVf as (If & NRf & PBf & NWf & CLf).
    pose proof (abs_view_nopending d1 hf P0) as AV.
    assert (AC : abs_content disk h = d1) by (unfold abs_content; rewrite <- AVf, AV; reflexivity).
    assert (AP : abs_pos disk h = pos hf) by (unfold abs_pos; rewrite <- AVf, AV; reflexivity).
    rewrite AC, AP in ES.
    destruct (ilines ch d1 hf k []) as [h1 r1] eqn:E1. injection EI as <- <- <-.
    destruct (s_lines true d1 (pos hf) k []) as [r2 p2] eqn:E2. injection ES as <- <- <-.
    destruct (ilines_spec d1 k hf [] h1 r1 r2 p2 If E1 E2) as (-> & I1 & P1 & (F1 & F2 & F3 & F4 & F5)).
    assert (P1' : pending h1 = []) by (unfold pending in *; rewrite F1; exact P0).
    pose proof (abs_view_nopending d1 h1 P1') as AV1.
    split.
    { unfold Inv. split; [exact I1|]. split; [rewrite F2, G1, RD; discriminate|].
      split; [rewrite P1'; congruence|]. split; [rewrite F3, F1; exact NWf|]. rewrite F5, G4, C. discriminate. }
    split; [discriminate|].
    split; [unfold abs_content; rewrite AV1; reflexivity|].
    split; [|reflexivity].
    unfold abs_h, s_setpos, abs_pos. rewrite AV1. cbn. rewrite P1, F2, F3, F4, F5, G1, G2, G3, G4, RD, C. reflexivity.
  - (* write *)
    cbn in D. destruct (is_LRead l); [discriminate|]. injection D as <-.
    destruct (i_wr h) eqn:WR; cbn [negb] in EI, ES.
    2:{ injection EI as <- <- <-. injection ES as <- <- <-.
        split; [exact IV|]. split; [discriminate|]. split; [reflexivity|]. split; [reflexivity|reflexivity]. }
    destruct (abandon_abs disk h IV) as (E0 & O0 & AV0 & W0 & G1 & G2 & G3 & G4).
    destruct (fold_left iwrite1 ss (disk, abandon h)) as [d1 h1] eqn:FW. injection EI as <- <- <-.
    destruct (iwrites_abs ss disk (abandon h) d1 h1 E0 O0 FW) as (E1 & O1 & B1 & B2 & B3 & B4 & B5 & BV).
    rewrite abs_eta in ES. rewrite AV0, G3 in BV. rewrite <- BV in ES.
    destruct (abs_view d1 h1) as [c1 p1] eqn:AV1. injection ES as <- <- <-.
    split.
    { apply Inv_nobuf; [exact E1|exact O1| |].
      - rewrite B2, G2, WR. discriminate.
      - rewrite B4, G4, C. discriminate. }
    split; [discriminate|].
    split; [unfold abs_content; rewrite AV1; reflexivity|].
    split; [|reflexivity].
    unfold abs_h, s_setpos, abs_pos. rewrite AV1. cbn. rewrite B1, B2, B3, B4, G1, G2, G3, G4, WR, C. reflexivity.
  - (* seek *)
    cbn in D. injection D as <-.
    destruct (iflush disk h) as [d1 h1] eqn:FL.
    destruct (iflush_abs disk h d1 h1 IV FL) as (AV1 & P1 & IV1 & F1 & F2 & F3 & F4 & F5).
    destruct (abandon_abs d1 h1 IV1) as (E2 & O2 & AV2 & W2 & G1 & G2 & G3 & G4).
    assert (P2 : pending (abandon h1) = []) by (unfold pending in *; rewrite W2; exact P1).
    pose proof (abs_view_nopending d1 (abandon h1) P2) as AVN.
    assert (PO : pos (abandon h1) = ofs (abandon h1)) by (unfold pos; rewrite E2; len0g; apply Z.sub_0_r).
    assert (AVh : abs_view disk h = (d1, ofs (abandon h1))) by (rewrite <- AV1, <- AV2, AVN, PO; reflexivity).
    assert (AC : abs_content disk h = d1) by (unfold abs_content; rewrite AVh; reflexivity).
    assert (AP : abs_pos disk h = ofs (abandon h1)) by (unfold abs_pos; rewrite AVh; reflexivity).
    rewrite AC, AP in ES.
    assert (NW2 : i_wr (abandon h1) = false -> wb (abandon h1) = None).
    { rewrite G2, W2. destruct IV1 as (_ & _ & _ & X & _). exact X. }
    destruct (seek_target w off (ofs (abandon h1)) (len d1) <? 0) eqn:NEG.
    + injection EI as <- <- <-. injection ES as <- <- <-.
      split; [apply Inv_nobuf; auto|]. split; [intros _; exact P2|].
      split; [unfold abs_content; rewrite AVN; reflexivity|].
      split; [|reflexivity].
      unfold abs_h, abs_pos. rewrite AVN, AVh. cbn [snd]. rewrite PO, G1, G2, G3, G4, F1, F2, F3, F4. reflexivity.
    + injection EI as <- <- <-. injection ES as <- <- <-.
      set (np := seek_target w off (ofs (abandon h1)) (len d1)) in *.
      set (h3 := upd_r (abandon h1) np (rbuf (abandon h1)) (tick (abandon h1))).
      assert (P3 : pending h3 = []) by exact P2.
      assert (E3 : rbuf h3 = []) by exact E2.
      assert (AV3 : abs_view d1 h3 = (d1, np)).
      { rewrite (abs_view_nopending d1 h3 P3). unfold pos. rewrite E3; len0g. cbn. f_equal. apply Z.sub_0_r. }
      split; [apply Inv_nobuf; [exact E3|cbn; apply Z.ltb_ge; exact NEG|exact NW2|intros _; exact P3]|].
      split; [intros _; exact P3|].
      split; [unfold abs_content; rewrite AV3; reflexivity|].
      split; [|reflexivity].
      unfold abs_h, s_setpos, abs_pos. rewrite AV3. cbn. rewrite G1, G2, G3, G4, F1, F2, F3, F4. reflexivity.
  - (* flush *)
    cbn in D. injection D as <-.
    destruct (i_wr h) eqn:WR; cbn [negb] in EI.
    2:{ injection EI as <- <- <-. injection ES as <- <- <-.
        assert (P0 : pending h = []) by (unfold pending; rewrite (NW eq_refl); reflexivity).
        split; [exact IV|]. split; [intros _; exact P0|]. split; [reflexivity|]. split; [reflexivity|reflexivity]. }
    destruct (iflush disk h) as [d1 h1] eqn:FL. injection EI as <- <- <-. injection ES as <- <- <-.
    destruct (iflush_abs disk h d1 h1 IV FL) as (AV1 & P1 & IV1 & F1 & F2 & F3 & F4 & F5).
    split; [exact IV1|]. split; [intros _; exact P1|].
    split; [unfold abs_content; rewrite AV1; reflexivity|].
    split; [|reflexivity].
    unfold abs_h, abs_pos. rewrite AV1, F1, F2, F3, F4, WR. reflexivity.
  - (* setvbuf *)
    cbn in D. injection D as <-.
    destruct (i_wr h) eqn:WR; cbn [negb] in EI.
    2:{ injection EI as <- <- <-. injection ES as <- <- <-.
        split; [exact IV|]. split; [exact LP|]. split; [reflexivity|]. split; [reflexivity|reflexivity]. }
    destruct (iflush disk h) as [d1 h1] eqn:FL. injection EI as <- <- <-. injection ES as <- <- <-.
    destruct (iflush_abs disk h d1 h1 IV FL) as (AV1 & P1 & IV1 & F1 & F2 & F3 & F4 & F5).
    set (h2 := upd_w h1 (ofs h1) (match m with VNo => None | _ => Some ([], vcap size) end)).
    assert (P2 : pending h2 = []) by (unfold pending, h2; cbn; destruct m; reflexivity).
    assert (AV2 : abs_view d1 h2 = abs_view d1 h1).
    { rewrite (abs_view_nopending d1 h2 P2), (abs_view_nopending d1 h1 P1). reflexivity. }
    destruct IV1 as (I1 & NR1 & PB1 & NW1 & CL1).
    split.
    { unfold Inv. split; [exact I1|]. split; [exact NR1|]. split; [rewrite P2; congruence|].
      split; [cbn; rewrite F2, WR; discriminate|]. intros X. split; [exact P2|]. apply CL1. exact X. }
    split; [intros _; exact P2|].
    split; [unfold abs_content; rewrite AV2, AV1; reflexivity|].
    split; [|reflexivity].
    unfold abs_h, abs_pos. rewrite AV2, AV1. cbn. rewrite F1, F2, F3, F4, WR. reflexivity.
  - (* close *)
    cbn in D. injection D as <-.
    assert (FC : iflush disk (upd_closed h) = (fst (iflush disk h), upd_closed (snd (iflush disk h)))).
    { unfold iflush. cbn [wb upd_closed i_app ofs]. destruct (wb h) as [[buf cap]|]; [|reflexivity].
      destruct (fd_write (i_app h) disk (ofs h) buf); reflexivity. }
    rewrite FC in EI. destruct (iflush disk h) as [d1 h1] eqn:FL. cbn [fst snd] in EI.
    injection EI as <- <- <-. injection ES as <- <- <-.
    destruct (iflush_abs disk h d1 h1 IV FL) as (AV1 & P1 & IV1 & F1 & F2 & F3 & F4 & F5).
    destruct (abandon_abs d1 h1 IV1) as (E2 & O2 & AV2 & W2 & G1 & G2 & G3 & G4).
    assert (AC : abandon (upd_closed h1) = upd_closed (abandon h1)).
    { unfold abandon. cbn [i_rd upd_closed]. destruct (i_rd h1); reflexivity. }
    rewrite AC.
    set (h3 := upd_closed (abandon h1)).
    assert (P3 : pending h3 = []) by (unfold pending in *; cbn; rewrite W2; exact P1).
    assert (E3 : rbuf h3 = []) by exact E2.
    assert (AV3 : abs_view d1 h3 = abs_view disk h).
    { rewrite <- AV1, <- AV2. rewrite (abs_view_nopending d1 h3 P3).
      assert (P2 : pending (abandon h1) = []) by (unfold pending in *; rewrite W2; exact P1).
      rewrite (abs_view_nopending d1 (abandon h1) P2). reflexivity. }
    split.
    { apply Inv_nobuf; [exact E3|exact O2| |intros _; exact P3].
      cbn. rewrite G2, W2. destruct IV1 as (_ & _ & _ & X & _). exact X. }
    split; [intros _; exact P3|].
    split; [unfold abs_content; rewrite AV3; reflexivity|].
    split; [|reflexivity].
    unfold abs_h, abs_pos. rewrite AV3. cbn. rewrite G1, G2, G3, F1, F2, F3. reflexivity.
Qed.

End Refine.
