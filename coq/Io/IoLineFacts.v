(* C19 — ReadSlice / ReadLine / readBufioLine over the chunked reader compute the line of the
   logical remainder (with ReadLine's "\r\n" rule), for every chunking and every line length. *)
From GL Require Import Common.Bytes Common.BytesFacts Io.IoSpec Io.IoImpl Io.IoBytesFacts Io.IoReadFacts.
From Coq Require Import Lia ZifyBool.

(* ---------- pure facts on lines ---------- *)
Lemma split_nl_Some r l t : split_nl r = Some (l, t) ->
  exists l0, l = l0 ++ [10] /\ r = l ++ t /\ take_line r = (l0, true).
Proof.
  revert l t. induction r as [|b r IH]; intros l t H; [discriminate|].
  cbn [split_nl take_line] in *. destruct (b =? 10) eqn:E.
  - injection H as <- <-. exists []. assert (b = 10) by lia. subst. auto.
  - destruct (split_nl r) as [[l' t']|]; [|discriminate]. injection H as <- <-.
    destruct (IH l' t' eq_refl) as (l0 & -> & -> & T). exists (b :: l0). rewrite T. auto.
Qed.

Lemma split_nl_None r : split_nl r = None -> take_line r = (r, false).
Proof.
  induction r as [|b r IH]; intros H; [reflexivity|].
  cbn [split_nl take_line] in *. destruct (b =? 10); [discriminate|].
  destruct (split_nl r) as [[l' t']|]; [discriminate|]. rewrite IH by reflexivity. reflexivity.
Qed.

Lemma split_nl_app r l t x : split_nl r = Some (l, t) -> split_nl (r ++ x) = Some (l, t ++ x).
Proof.
  revert l t. induction r as [|b r IH]; intros l t H; [discriminate|].
  cbn [split_nl app] in *. destruct (b =? 10).
  - injection H as <- <-. reflexivity.
  - destruct (split_nl r) as [[l' t']|]; [|discriminate]. injection H as <- <-.
    rewrite (IH l' t' eq_refl). reflexivity.
Qed.

Lemma take_line_found_app r l x : take_line r = (l, true) -> take_line (r ++ x) = (l, true).
Proof.
  revert l. induction r as [|b r IH]; intros l H; [discriminate|].
  cbn [take_line app] in *. destruct (b =? 10); [exact H|].
  destruct (take_line r) as [l' f] eqn:E. injection H as <- ->. rewrite (IH l' eq_refl). reflexivity.
Qed.

Lemma take_line_none_app r x : take_line r = (r, false) ->
  take_line (r ++ x) = (r ++ fst (take_line x), snd (take_line x)).
Proof.
  induction r as [|b r IH]; intros H.
  - cbn [app]. destruct (take_line x); reflexivity.
  - cbn [take_line app] in *. destruct (b =? 10); [discriminate|].
    destruct (take_line r) as [l' f] eqn:E. injection H as -> ->. rewrite IH by reflexivity. reflexivity.
Qed.

Lemma drop_last_cr_eq l : drop_last_cr l = if last l 0 =? 13 then removelast l else l.
Proof.
  induction l as [|b t IH]; [reflexivity|].
  destruct t as [|c t'].
  - cbn. destruct (b =? 13); reflexivity.
  - change (drop_last_cr (b :: c :: t')) with (b :: drop_last_cr (c :: t')). rewrite IH.
    change (last (b :: c :: t') 0) with (last (c :: t') 0).
    change (removelast (b :: c :: t')) with (b :: removelast (c :: t')).
    destruct (last (c :: t') 0 =? 13); reflexivity.
Qed.

Lemma drop_eol_line l0 : drop_eol (l0 ++ [10]) = drop_last_cr l0.
Proof. unfold drop_eol. rewrite removelast_last. symmetry. apply drop_last_cr_eq. Qed.

Lemma drop_last_cr_cons x t : t <> [] -> drop_last_cr (x :: t) = x :: drop_last_cr t.
Proof. destruct t; [congruence|reflexivity]. Qed.

Lemma drop_last_cr_app a b : b <> [] -> drop_last_cr (a ++ b) = a ++ drop_last_cr b.
Proof.
  intros Hb. induction a as [|x a IH]; [reflexivity|].
  cbn [app]. rewrite drop_last_cr_cons, IH; [reflexivity|].
  destruct a; [exact Hb|discriminate].
Qed.

Lemma firstn_RBUF_app (rb x : bytes) : len rb <= RBUF ->
  firstn (Z.to_nat RBUF) (rb ++ x) = rb ++ firstn (Z.to_nat RBUF - length rb) x.
Proof. intros L. apply firstn_app_le. unfold len in L. lia. Qed.

(* ---------- ReadSlice as a function of the remainder ---------- *)
Definition rs_spec (R : bytes) : rsl :=
  match split_nl (firstn (Z.to_nat RBUF) R) with
  | Some (l, _) => SlLine l
  | None => if RBUF <=? len R then SlFull (firstn (Z.to_nat RBUF) R) else SlEOF R
  end.

Definition payload (s : rsl) : bytes := match s with SlLine l | SlEOF l | SlFull l => l end.

Section Lines.
Variable ch : Z -> Z -> Z -> Z.
Variable disk : bytes.

Notation Rinv := (Rinv disk).
Notation rem := (rem disk).
Notation adv_by := (adv_by disk).

Lemma fill_rest h h' e : Rinv h -> len (rbuf h) < RBUF -> fill ch disk h = (h', e) ->
  exists d, rest disk (ofs h) = d ++ rest disk (ofs h') /\ rbuf h' = rbuf h ++ d /\
            (e = true <-> d = []) /\ (d = [] <-> rest disk (ofs h) = []) /\ ofs h' = ofs h + len d.
Proof.
  intros I L F. destruct (fill_spec ch disk h h' e I L F) as (_ & d & R1 & O & E1 & E2).
  exists d. repeat split; try tauto.
  pose proof (Rinv_ofs disk h I) as Ho. unfold fill in F. injection F as <- <-. cbn [ofs rbuf upd_r] in *.
  apply app_inv_head in R1. subst d. apply fd_read_prefix; exact Ho.
Qed.

Lemma readSlice_spec : forall fuel h pend, Rinv h ->
  (pend = true -> rest disk (ofs h) = [] /\ len (rbuf h) < RBUF) ->
  (length (rest disk (ofs h)) + (if pend then 0 else 1) < fuel)%nat ->
  exists h', readSlice ch fuel disk h pend = Some (h', rs_spec (rem h)) /\
             rem h = payload (rs_spec (rem h)) ++ rem h' /\
             adv_by h h' (len (payload (rs_spec (rem h)))) /\
             (forall l, rs_spec (rem h) = SlFull l -> rbuf h' = []).
Proof.
  induction fuel as [|f IH]; intros h pend I Hp Fu; [lia|].
  pose proof I as (I0 & I1 & I2).
  cbn [readSlice]. destruct (split_nl (rbuf h)) as [[l t]|] eqn:SN.
  - (* a '\n' is already buffered *)
    destruct (split_nl_Some _ _ _ SN) as (l0 & -> & Erb & TL).
    assert (RS : rs_spec (rem h) = SlLine (l0 ++ [10])).
    { unfold rs_spec, IoReadFacts.rem. rewrite firstn_RBUF_app by exact I2.
      rewrite (split_nl_app _ _ _ _ SN). reflexivity. }
    exists (upd_r h (ofs h) t (tick h)). rewrite RS. cbn [payload].
    assert (S : rem h = (l0 ++ [10]) ++ rem (upd_r h (ofs h) t (tick h))).
    { unfold IoReadFacts.rem; cbn [ofs rbuf upd_r]. rewrite Erb at 1. rewrite <- !app_assoc. reflexivity. }
    split; [reflexivity|]. split; [exact S|]. split; [|discriminate].
    apply adv_by_intro; [exact S| | |apply same_frame_upd_r].
    + unfold pos; cbn [ofs rbuf upd_r]. rewrite Erb. rewrite !len_app. lia.
    + cbn [rbuf upd_r]. rewrite Erb, len_app in I2. pose proof (len_nonneg (l0 ++ [10])). lia.
  - pose proof (split_nl_None _ SN) as TL.
    destruct pend.
    + (* pending io.EOF: what is buffered is all there is *)
      destruct (Hp eq_refl) as (N & L).
      assert (RH : rem h = rbuf h) by (unfold IoReadFacts.rem; rewrite N; apply app_nil_r).
      assert (RS : rs_spec (rem h) = SlEOF (rbuf h)).
      { unfold rs_spec. rewrite RH. rewrite firstn_all2 by (unfold len in L; lia).
        rewrite SN. destruct (RBUF <=? len (rbuf h)) eqn:E; [lia|reflexivity]. }
      exists (upd_r h (ofs h) [] (tick h)). rewrite RS. cbn [payload].
      assert (S : rem h = rbuf h ++ rem (upd_r h (ofs h) [] (tick h))).
      { unfold IoReadFacts.rem; cbn [ofs rbuf upd_r]. reflexivity. }
      split; [reflexivity|]. split; [exact S|]. split; [|discriminate].
      apply adv_by_intro; [exact S| | |apply same_frame_upd_r].
      * unfold pos; cbn [ofs rbuf upd_r]. rewrite len_nil. lia.
      * cbn [rbuf upd_r]. rewrite len_nil. unfold RBUF; lia.
    + destruct (RBUF <=? len (rbuf h)) eqn:Full.
      * (* buffer full without a '\n' *)
        assert (L : len (rbuf h) = RBUF) by lia.
        assert (FR : firstn (Z.to_nat RBUF) (rem h) = rbuf h).
        { unfold IoReadFacts.rem. rewrite <- L. apply firstn_len_app. }
        assert (RS : rs_spec (rem h) = SlFull (rbuf h)).
        { unfold rs_spec. rewrite FR, SN.
          assert (RBUF <= len (rem h)).
          { unfold IoReadFacts.rem. rewrite len_app. pose proof (len_nonneg (rest disk (ofs h))). lia. }
          destruct (RBUF <=? len (rem h)) eqn:E; [reflexivity|lia]. }
        exists (upd_r h (ofs h) [] (tick h)). rewrite RS. cbn [payload].
        assert (S : rem h = rbuf h ++ rem (upd_r h (ofs h) [] (tick h))).
        { unfold IoReadFacts.rem; cbn [ofs rbuf upd_r]. reflexivity. }
        split; [reflexivity|]. split; [exact S|]. split; [|intros; reflexivity].
        apply adv_by_intro; [exact S| | |apply same_frame_upd_r].
        -- unfold pos; cbn [ofs rbuf upd_r]. rewrite len_nil. lia.
        -- cbn [rbuf upd_r]. rewrite len_nil. unfold RBUF; lia.
      * (* fill and look again *)
        destruct (fill ch disk h) as [h1 e] eqn:F.
        assert (L : len (rbuf h) < RBUF) by lia.
        destruct (fill_spec ch disk h h1 e I L F) as (A & _).
        destruct (fill_rest h h1 e I L F) as (d & Pre & Rb & E1 & E2 & O).
        assert (I1' : Rinv h1) by (eapply adv_by_Rinv; eauto).
        assert (R1 : rem h1 = rem h) by (destruct A as (_ & _ & _ & R & _); exact R).
        destruct (IH h1 e I1') as (h' & RSl & S & A2 & Fl).
        { intros ->. assert (d = []) by (apply E1; reflexivity). subst d.
          rewrite app_nil_r in Rb. rewrite len_nil, Z.add_0_r in O. rewrite O, Rb.
          split; [apply E2; reflexivity|exact L]. }
        { destruct e.
          - assert (d = []) by (apply E1; reflexivity). subst d.
            assert (N : rest disk (ofs h) = []) by (apply E2; reflexivity).
            rewrite N in Pre, Fu. cbn [app] in Pre. rewrite <- Pre. simpl in *. lia.
          - assert (d <> []) by (intros ->; destruct E1 as [_ E1]; discriminate (E1 eq_refl)).
            rewrite Pre, app_length in Fu. destruct d; [congruence|]. simpl in Fu. lia. }
        exists h'. rewrite R1 in *. split; [exact RSl|]. split; [exact S|]. split; [|exact Fl].
        replace (len (payload (rs_spec (rem h)))) with (0 + len (payload (rs_spec (rem h)))) by lia.
        eapply adv_by_trans; eauto.
Qed.

(* ---------- readBufioLine ---------- *)
Lemma readBLine_spec : forall fuel h acc, Rinv h -> (length (rem h) + 2 <= fuel)%nat ->
  exists h', readBLine ch fuel disk h acc =
               Some (h', acc ++ (if snd (take_line (rem h)) then drop_last_cr (fst (take_line (rem h)))
                                 else fst (take_line (rem h))),
                     match rem h, acc with [], [] => true | _, _ => false end) /\
             adv_by h h' (len (fst (take_line (rem h))) + (if snd (take_line (rem h)) then 1 else 0)).
Proof.
  induction fuel as [|f IH]; intros h acc I Fu; [lia|].
  assert (Fu1 : (length (rest disk (ofs h)) + 1 < S f)%nat).
  { unfold IoReadFacts.rem in Fu. rewrite app_length in Fu. lia. }
  destruct (readSlice_spec (S f) h false I ltac:(discriminate) Fu1) as (h1 & RSl & S & A & Fl).
  assert (I1 : Rinv h1) by (eapply adv_by_Rinv; eauto).
  cbn [readBLine]. unfold readLine. rewrite RSl.
  set (R := rem h) in *.
  set (F := firstn (Z.to_nat RBUF) R) in *.
  assert (RF : R = F ++ skipn (Z.to_nat RBUF) R) by (symmetry; apply firstn_skipn).
  unfold rs_spec in *. fold F in RSl, S, A, Fl |- *.
  destruct (split_nl F) as [[l1 t1]|] eqn:SN.
  - (* the line ends inside the buffer *)
    destruct (split_nl_Some _ _ _ SN) as (l0 & -> & EF & TL).
    cbn [payload] in *.
    assert (T : take_line R = (l0, true)) by (rewrite RF; apply take_line_found_app; exact TL).
    rewrite T. cbn [fst snd]. rewrite drop_eol_line.
    exists h1. split.
    + f_equal. f_equal. destruct R; [|reflexivity]. destruct l0; discriminate S.
    + rewrite len_app in A. exact A.
  - pose proof (split_nl_None _ SN) as TL.
    destruct (RBUF <=? len R) eqn:Big.
    + (* a full buffer without '\n': a prefix of the line *)
      cbn [payload] in *.
      assert (LF : len F = RBUF).
      { unfold F. rewrite len_firstn. unfold RBUF in *. lia. }
      set (R2 := skipn (Z.to_nat RBUF) R) in *.
      assert (RH1 : rem h1 = R2).
      { apply (app_inv_head F). rewrite <- S. exact RF. }
      assert (T : take_line R = (F ++ fst (take_line R2), snd (take_line R2))).
      { rewrite RF at 1. apply take_line_none_app; exact TL. }
      assert (Rb1 : rbuf h1 = []) by (eapply Fl; reflexivity).
      assert (Fne : F <> []) by (intros E; rewrite E, len_nil in LF; unfold RBUF in LF; lia).
      destruct (exists_last Fne) as (F0 & x & EF).
      destruct (last F 0 =? 13) eqn:CR.
      * (* trailing '\r' put back *)
        assert (x = 13) by (rewrite EF, last_last in CR; lia). subst x.
        set (h2 := upd_r h1 (ofs h1) (13 :: rbuf h1) (tick h1)).
        assert (RH2 : rem h2 = 13 :: R2).
        { unfold IoReadFacts.rem, h2; cbn [ofs rbuf upd_r]. rewrite Rb1. cbn [app].
          unfold IoReadFacts.rem in RH1. rewrite Rb1 in RH1. cbn [app] in RH1. rewrite RH1. reflexivity. }
        assert (A2 : adv_by h h2 (len F0)).
        { apply adv_by_intro.
          - fold R. rewrite RF at 1. rewrite EF, RH2, <- app_assoc. reflexivity.
          - destruct A as (_ & _ & P1 & _). unfold pos in *. unfold h2; cbn [ofs rbuf upd_r].
            rewrite Rb1 in *. rewrite EF, len_app in P1. rewrite len_cons, len_nil in *.
            change (len [13]) with 1 in P1. lia.
          - unfold h2; cbn [rbuf upd_r]. rewrite Rb1. unfold RBUF, len; simpl; lia.
          - destruct A as (_ & _ & _ & _ & _ & SF). eapply same_frame_trans; [exact SF|apply same_frame_upd_r]. }
        assert (I2 : Rinv h2) by exact (adv_by_Rinv disk h h2 _ I A2).
        destruct (IH h2 (acc ++ removelast F) I2) as (h' & RB & A3).
        { rewrite RH2. fold R in Fu. rewrite RF, app_length in Fu. unfold len in LF. unfold RBUF in *.
          simpl. lia. }
        exists h'. fold h2. rewrite RB. rewrite RH2. rewrite T.
        cbn [take_line fst snd]. change (13 =? 10) with false. cbn [fst snd].
        destruct (take_line R2) as [l2 nl2] eqn:T2. cbn [fst snd].
        rewrite EF, removelast_last.
        split.
        -- f_equal. f_equal.
           ++ rewrite <- !app_assoc. f_equal. destruct nl2.
              ** rewrite (drop_last_cr_app F0 ([13] ++ l2)) by discriminate. reflexivity.
              ** reflexivity.
           ++ destruct R as [|r0 R']; [rewrite len_nil in Big; unfold RBUF in Big; lia|].
              destruct (acc ++ F0) eqn:E; reflexivity.
        -- rewrite RH2 in A3. cbn [take_line fst snd] in A3. change (13 =? 10) with false in A3.
           rewrite T2 in A3. cbn [fst snd] in A3.
           rewrite !len_app. change (len [13]) with 1. rewrite len_cons in A3.
           replace (len F0 + 1 + len l2 + (if nl2 then 1 else 0))
             with (len F0 + (1 + len l2 + (if nl2 then 1 else 0))) by lia.
           eapply adv_by_trans; eauto.
      * (* no trailing '\r' *)
        destruct (IH h1 (acc ++ F) I1) as (h' & RB & A3).
        { rewrite RH1. fold R in Fu. rewrite RF, app_length in Fu. unfold len in LF. unfold RBUF in *. lia. }
        exists h'. rewrite RB, RH1, T.
        destruct (take_line R2) as [l2 nl2] eqn:T2. cbn [fst snd].
        split.
        -- f_equal. f_equal.
           ++ rewrite <- !app_assoc. f_equal. destruct nl2; [|reflexivity].
              destruct l2 as [|y l2'].
              ** cbn [drop_last_cr]. rewrite !app_nil_r. rewrite (drop_last_cr_eq F), CR. reflexivity.
              ** rewrite drop_last_cr_app by discriminate. reflexivity.
           ++ destruct R as [|r0 R']; [rewrite len_nil in Big; unfold RBUF in Big; lia|].
              destruct (acc ++ F) eqn:E; [|destruct R2; reflexivity].
              destruct acc; [cbn [app] in E; destruct (Fne E)|discriminate].
        -- rewrite RH1, T2 in A3. cbn [fst snd] in A3. rewrite len_app.
           replace (len F + len l2 + (if nl2 then 1 else 0)) with (len F + (len l2 + (if nl2 then 1 else 0))) by lia.
           eapply adv_by_trans; eauto.
    + (* the rest of the file, no '\n' *)
      cbn [payload] in *.
      assert (FR : F = R).
      { unfold F. apply firstn_all2. unfold len in Big. lia. }
      assert (T : take_line R = (R, false)) by (rewrite FR in TL; exact TL).
      rewrite T. cbn [fst snd]. rewrite Z.add_0_r.
      destruct R as [|r0 R'] eqn:ER.
      * exists h1. split; [|exact A]. rewrite app_nil_r. reflexivity.
      * exists h1. split; [|exact A]. reflexivity.
Qed.

End Lines.
