(* C19 — the statements used by Properties/C19.v, proved from the one-step simulation. *)
From GL Require Import Common.Bytes Common.BytesFacts Io.IoSpec Io.IoImpl Io.IoSys
  Io.IoBytesFacts Io.IoReadFacts Io.IoLineFacts Io.IoNumFacts Io.IoRefine.
From Coq Require Import Lia ZifyBool.

(* ---------- hypotheses on histories, as boolean functions ---------- *)

Definition is_unsup (r : res) : bool := match r with RUnsupported => true | _ => false end.
(* the history stays inside the fragment the models support (decimal numerals, counts >= 0) *)
Definition supported (rs : list res) : bool := forallb (fun r => negb (is_unsup r)) rs.

Definition cr_free (s : bytes) : bool := forallb (fun b => negb (b =? 13)) s.
Definition op_cr_free (o : op) : bool :=
  match o with OWrite ss => forallb cr_free ss | _ => true end.

(* the tracker state a disciplined history ends in *)
Fixpoint disc1_end (l : lastop) (ops : list op) : lastop :=
  match ops with
  | [] => l
  | o :: ops' => match disc1_step l o with Some l' => disc1_end l' ops' | None => l end
  end.

Definition spec_results (crlf : bool) (c : bytes) (s : shandle) (ops : list op) : list res :=
  let '(_, _, rs) := srun crlf c s ops in rs.

Section Thm.
Variable ch : Z -> Z -> Z -> Z.

(* ---------- runs ---------- *)
Lemma run_sim : forall ops disk h l,
  Inv disk h -> (l = LNone -> pending h = []) ->
  disc1 l ops = true ->
  supported (spec_results true (abs_content disk h) (abs_h disk h) ops) = true ->
  let '(d', h', rs) := irun ch disk h ops in
  let '(c', s', rs') := srun true (abs_content disk h) (abs_h disk h) ops in
  rs = rs' /\ c' = abs_content d' h' /\ s' = abs_h d' h' /\ Inv d' h' /\
  (disc1_end l ops = LNone -> pending h' = []).
Proof.
  induction ops as [|o ops IH]; intros disk h l IV LP D SU.
  - cbn. split; [reflexivity|]. split; [reflexivity|]. split; [reflexivity|]. split; [exact IV|exact LP].
  - cbn [irun srun disc1 disc1_end] in *. unfold spec_results in SU. cbn [srun] in SU.
    destruct (disc1_step l o) as [l1|] eqn:DS; [|discriminate].
    destruct (istep ch disk h o) as [[d1 h1] r1] eqn:EI.
    destruct (sstep true (abs_content disk h) (abs_h disk h) o) as [[c1 s1] r1'] eqn:ES.
    destruct (srun true c1 s1 ops) as [[c2 s2] rs2] eqn:ER. cbn [supported forallb] in SU.
    apply andb_prop in SU as [SU1 SU2].
    assert (NU : r1' <> RUnsupported) by (intros ->; discriminate).
    destruct (step_sim ch disk h l l1 o d1 h1 r1 c1 s1 r1' IV LP DS EI ES NU) as (IV1 & LP1 & -> & -> & ->).
    specialize (IH d1 h1 l1 IV1 LP1 D). unfold spec_results in IH. rewrite ER in IH.
    specialize (IH SU2). destruct (irun ch d1 h1 ops) as [[d2 h2] rs1].
    destruct IH as (-> & -> & -> & IV2 & LP2).
    split; [reflexivity|]. split; [reflexivity|]. split; [reflexivity|]. split; [exact IV2|exact LP2].
Qed.

Lemma Inv_open m init : Inv (fst (i_open m init)) (snd (i_open m init)).
Proof.
  unfold i_open; cbn [fst snd]. apply Inv_nobuf; cbn; try reflexivity; try lia.
Qed.

Lemma abs_open m init :
  abs_content (fst (i_open m init)) (snd (i_open m init)) = fst (s_open m init) /\
  abs_h (fst (i_open m init)) (snd (i_open m init)) = snd (s_open m init).
Proof. split; reflexivity. Qed.

(* every disciplined history on a freshly opened handle, gopher-lua's line rule *)
Lemma io_refines_crlf_lemma : forall m init ops,
  disc1 LNone ops = true ->
  supported (spec_results true (fst (s_open m init)) (snd (s_open m init)) ops) = true ->
  let '(d', h', rs) := irun ch (fst (i_open m init)) (snd (i_open m init)) ops in
  let '(c', s', rs') := srun true (fst (s_open m init)) (snd (s_open m init)) ops in
  rs = rs' /\ c' = abs_content d' h' /\ s' = abs_h d' h'.
Proof.
  intros m init ops D SU.
  pose proof (run_sim ops _ _ LNone (Inv_open m init) (fun _ => eq_refl) D) as H.
  destruct (abs_open m init) as (E1 & E2). rewrite E1, E2 in H. specialize (H SU).
  destruct (irun ch _ _ ops) as [[d' h'] rs]. destruct (srun true _ _ ops) as [[c' s'] rs'].
  tauto.
Qed.

(* ---------- without "\r": the two line rules coincide ---------- *)
Lemma cr_free_app a b : cr_free (a ++ b) = cr_free a && cr_free b.
Proof. apply forallb_app. Qed.

Lemma cr_free_skipn n s : cr_free s = true -> cr_free (skipn n s) = true.
Proof.
  revert s; induction n as [|n IH]; intros s H; [exact H|]. destruct s as [|b s]; [reflexivity|].
  cbn in H |- *. apply andb_prop in H as [_ H]. apply IH; exact H.
Qed.

Lemma cr_free_firstn n s : cr_free s = true -> cr_free (firstn n s) = true.
Proof.
  revert s; induction n as [|n IH]; intros s H; [reflexivity|]. destruct s as [|b s]; [reflexivity|].
  cbn in H |- *. apply andb_prop in H as [H1 H]. rewrite H1. apply IH; exact H.
Qed.

Lemma cr_free_zeros n : cr_free (zeros n) = true.
Proof. unfold zeros. induction (Z.to_nat n) as [|k IH]; [reflexivity|exact IH]. Qed.

Lemma cr_free_write_at d o s : cr_free d = true -> cr_free s = true -> cr_free (write_at d o s) = true.
Proof.
  intros D S. unfold write_at. destruct s as [|b s']; [exact D|].
  rewrite !cr_free_app, cr_free_firstn, cr_free_zeros, S, cr_free_skipn by assumption. reflexivity.
Qed.

Lemma drop_last_cr_free l : cr_free l = true -> drop_last_cr l = l.
Proof.
  induction l as [|b t IH]; intros H; [reflexivity|]. cbn in H. apply andb_prop in H as [H1 H2].
  destruct t as [|c t'].
  - cbn. destruct (b =? 13); [discriminate|reflexivity].
  - change (drop_last_cr (b :: c :: t')) with (b :: drop_last_cr (c :: t')). rewrite IH by exact H2. reflexivity.
Qed.

Lemma take_line_cr_free r : cr_free r = true -> cr_free (fst (take_line r)) = true.
Proof.
  induction r as [|b r IH]; intros H; [reflexivity|]. cbn in H. apply andb_prop in H as [H1 H2].
  cbn [take_line]. destruct (b =? 10); [reflexivity|]. destruct (take_line r) as [l f]. cbn [fst] in *.
  cbn. rewrite H1. apply IH; exact H2.
Qed.

Lemma line_of_cr_free r : cr_free r = true -> line_of true r = line_of false r.
Proof.
  intros H. unfold line_of. destruct r as [|b t]; [reflexivity|].
  pose proof (take_line_cr_free _ H) as T. destruct (take_line (b :: t)) as [l nl]. cbn [fst] in T.
  destruct nl; cbn [andb]; [|reflexivity]. rewrite drop_last_cr_free by exact T. reflexivity.
Qed.

Lemma s_read1_cr_free c p f : cr_free c = true -> s_read1 true c p f = s_read1 false c p f.
Proof.
  intros H. unfold s_read1. destruct f; try reflexivity.
  rewrite line_of_cr_free; [reflexivity|]. unfold rest. apply cr_free_skipn; exact H.
Qed.

Lemma s_reads_cr_free c : cr_free c = true -> forall fs p acc, s_reads true c p fs acc = s_reads false c p fs acc.
Proof.
  intros H. induction fs as [|f fs IH]; intros p acc; [reflexivity|].
  cbn [s_reads]. rewrite s_read1_cr_free by exact H.
  destruct (s_read1 false c p f) as [[v p']|]; [|reflexivity]. destruct v; try reflexivity; apply IH.
Qed.

Lemma s_lines_cr_free c : cr_free c = true -> forall k p acc, s_lines true c p k acc = s_lines false c p k acc.
Proof.
  intros H. induction k as [|k IH]; intros p acc; [reflexivity|].
  cbn [s_lines]. rewrite line_of_cr_free by (unfold rest; apply cr_free_skipn; exact H).
  destruct (line_of false (rest c p)) as [[l n]|]; [apply IH|reflexivity].
Qed.

Lemma s_write1_cr_free app c p s : cr_free c = true -> cr_free s = true ->
  cr_free (fst (s_write1 app (c, p) s)) = true.
Proof.
  intros C S. unfold s_write1. destruct s as [|b s']; [exact C|]. destruct app; cbn [fst].
  - rewrite cr_free_app, C, S. reflexivity.
  - apply cr_free_write_at; assumption.
Qed.

Lemma fold_s_write1_cr_free app : forall ss c p, cr_free c = true -> forallb cr_free ss = true ->
  cr_free (fst (fold_left (s_write1 app) ss (c, p))) = true.
Proof.
  induction ss as [|s ss IH]; intros c p C S; [exact C|]. cbn in S. apply andb_prop in S as [S1 S2].
  cbn [fold_left]. pose proof (s_write1_cr_free app c p s C S1) as H.
  destruct (s_write1 app (c, p) s) as [c' p']. apply IH; assumption.
Qed.

Lemma sstep_cr_free c h o : cr_free c = true -> op_cr_free o = true ->
  sstep true c h o = sstep false c h o /\ cr_free (fst (fst (sstep false c h o))) = true.
Proof.
  intros C O. unfold sstep. destruct (s_closed h); [split; [reflexivity|exact C]|].
  destruct o as [fs|k|k|ss|w off| |m size|]; cbn [op_cr_free] in O.
  - destruct (negb (s_rd h)); [split; [reflexivity|exact C]|].
    rewrite s_reads_cr_free by exact C. destruct (s_reads false c (s_pos h) fs []). split; [reflexivity|exact C].
  - destruct (negb (s_rd h)); [split; [reflexivity|exact C]|].
    rewrite s_lines_cr_free by exact C. destruct (s_lines false c (s_pos h) k []). split; [reflexivity|exact C].
  - destruct (negb (s_rd h)); [split; [reflexivity|exact C]|].
    rewrite s_lines_cr_free by exact C. destruct (s_lines false c (s_pos h) k []). split; [reflexivity|exact C].
  - destruct (negb (s_wr h)); [split; [reflexivity|exact C]|].
    pose proof (fold_s_write1_cr_free (s_app h) ss c (s_pos h) C O) as H.
    destruct (fold_left (s_write1 (s_app h)) ss (c, s_pos h)). split; [reflexivity|exact H].
  - destruct (seek_target w off (s_pos h) (len c) <? 0); split; try reflexivity; exact C.
  - split; [reflexivity|exact C].
  - split; [reflexivity|exact C].
  - split; [reflexivity|exact C].
Qed.

Lemma srun_cr_free : forall ops c h, cr_free c = true -> forallb op_cr_free ops = true ->
  srun true c h ops = srun false c h ops.
Proof.
  induction ops as [|o ops IH]; intros c h C O; [reflexivity|]. cbn in O. apply andb_prop in O as [O1 O2].
  cbn [srun]. destruct (sstep_cr_free c h o C O1) as (E & C1). rewrite E.
  destruct (sstep false c h o) as [[c1 h1] r]. cbn [fst] in C1. rewrite IH by assumption. reflexivity.
Qed.

Lemma cr_free_open m init : cr_free init = true -> cr_free (fst (s_open m init)) = true.
Proof. intros H. unfold s_open; cbn [fst]. destruct (mode_trunc m); [reflexivity|exact H]. Qed.

(* the headline: Lua 5.1's line rule, files and written strings without "\r" *)
Lemma io_refines_lemma : forall m init ops,
  disc1 LNone ops = true ->
  cr_free init = true -> forallb op_cr_free ops = true ->
  supported (spec_results false (fst (s_open m init)) (snd (s_open m init)) ops) = true ->
  let '(d', h', rs) := irun ch (fst (i_open m init)) (snd (i_open m init)) ops in
  let '(c', s', rs') := srun false (fst (s_open m init)) (snd (s_open m init)) ops in
  rs = rs' /\ c' = abs_content d' h' /\ s' = abs_h d' h'.
Proof.
  intros m init ops D C O SU.
  pose proof (srun_cr_free ops _ (snd (s_open m init)) (cr_free_open m init C) O) as E.
  unfold spec_results in SU. rewrite <- E in *. apply io_refines_crlf_lemma; assumption.
Qed.

(* ---------- visible after flush / close ---------- *)
Lemma disc1_end_app l ops o : disc1 l (ops ++ [o]) = true ->
  disc1_step (disc1_end l ops) o = Some (disc1_end l (ops ++ [o])).
Proof.
  revert l; induction ops as [|a ops IH]; intros l D.
  - cbn in *. destruct (disc1_step l o); [reflexivity|discriminate].
  - cbn [app disc1 disc1_end] in *. destruct (disc1_step l a); [apply IH; exact D|discriminate].
Qed.

Lemma fresh_reads_all m d : mode_rd m = true -> mode_trunc m = false ->
  istep ch (fst (i_open m d)) (snd (i_open m d)) (ORead [FAll]) =
  (d, upd_r (snd (i_open m d)) (Z.max 0 (len d)) [] 1, RVals [VStr d]).
Proof.
  intros R T. unfold i_open. rewrite T, R. reflexivity.
Qed.

Lemma visible_after_flush_close_lemma : forall m init ops o,
  (o = OFlush \/ o = OClose) ->
  disc1 LNone (ops ++ [o]) = true ->
  supported (spec_results true (fst (s_open m init)) (snd (s_open m init)) (ops ++ [o])) = true ->
  let '(d', h', _) := irun ch (fst (i_open m init)) (snd (i_open m init)) (ops ++ [o]) in
  let '(c', _, _) := srun true (fst (s_open m init)) (snd (s_open m init)) (ops ++ [o]) in
  d' = c' /\
  forall m2, mode_rd m2 = true -> mode_trunc m2 = false ->
    snd (istep ch (fst (i_open m2 d')) (snd (i_open m2 d')) (ORead [FAll])) = RVals [VStr c'].
Proof.
  intros m init ops o HO D SU.
  pose proof (run_sim (ops ++ [o]) _ _ LNone (Inv_open m init) (fun _ => eq_refl) D) as H.
  destruct (abs_open m init) as (E1 & E2). rewrite E1, E2 in H. specialize (H SU).
  pose proof (disc1_end_app LNone ops o D) as DE.
  destruct (irun ch _ _ (ops ++ [o])) as [[d' h'] rs]. destruct (srun true _ _ (ops ++ [o])) as [[c' s'] rs'].
  destruct H as (_ & -> & _ & IV & LP).
  assert (P : pending h' = []).
  { apply LP. destruct HO as [-> | ->]; cbn in DE; injection DE as <-; reflexivity. }
  assert (AC : abs_content d' h' = d') by (unfold abs_content; rewrite (abs_view_nopending d' h' P); reflexivity).
  rewrite AC. split; [reflexivity|]. intros m2 R T. rewrite fresh_reads_all by assumption. reflexivity.
Qed.

(* a second handle opened after the first one's flush/close: its whole history runs against the
   bytes the model has (the first handle stays idle meanwhile) *)
Lemma second_handle_refines_lemma : forall m init ops o m2 ops2,
  (o = OFlush \/ o = OClose) ->
  disc1 LNone (ops ++ [o]) = true ->
  supported (spec_results true (fst (s_open m init)) (snd (s_open m init)) (ops ++ [o])) = true ->
  disc1 LNone ops2 = true ->
  let '(d1, _, _) := irun ch (fst (i_open m init)) (snd (i_open m init)) (ops ++ [o]) in
  let '(c1, _, _) := srun true (fst (s_open m init)) (snd (s_open m init)) (ops ++ [o]) in
  supported (spec_results true (fst (s_open m2 c1)) (snd (s_open m2 c1)) ops2) = true ->
  let '(d', h', rs) := irun ch (fst (i_open m2 d1)) (snd (i_open m2 d1)) ops2 in
  let '(c', s', rs') := srun true (fst (s_open m2 c1)) (snd (s_open m2 c1)) ops2 in
  rs = rs' /\ c' = abs_content d' h' /\ s' = abs_h d' h'.
Proof.
  intros m init ops o m2 ops2 HO D SU D2.
  pose proof (visible_after_flush_close_lemma m init ops o HO D SU) as V.
  destruct (irun ch _ _ (ops ++ [o])) as [[d1 h1] rs1].
  destruct (srun true _ _ (ops ++ [o])) as [[c1 s1] rs1'].
  destruct V as (-> & _). intros SU2.
  apply io_refines_crlf_lemma; assumption.
Qed.

(* ---------- end of file ---------- *)
Definition eof_fmt (f : rfmt) : bool :=
  match f with FCount n => 0 <=? n | FLine => true | FNum => true | FAll => false end.

Lemma abs_nopending disk h : pending h = [] -> abs_content disk h = disk /\ abs_pos disk h = pos h.
Proof.
  intros P. unfold abs_content, abs_pos. rewrite (abs_view_nopending disk h P). split; reflexivity.
Qed.

Lemma iflush_nopending disk h : pending h = [] -> iflush disk h = (disk, h).
Proof.
  destruct h as [o rb w rd wr ap cl tk]. unfold pending, iflush. cbn [wb].
  destruct w as [[b c]|]; intros P; [|reflexivity]. subst b. reflexivity.
Qed.

Lemma eof_is_nil_lemma : forall disk h f,
  Inv disk h -> i_closed h = false -> i_rd h = true -> pending h = [] -> eof_fmt f = true ->
  (len disk <= abs_pos disk h -> snd (istep ch disk h (ORead [f])) = RVals [VNil]) /\
  (f <> FNum -> snd (istep ch disk h (ORead [f])) = RVals [VNil] -> len disk <= abs_pos disk h).
Proof.
  intros disk h f IV C R P EF. destruct (abs_nopending disk h P) as (_ & AP). rewrite AP.
  pose proof IV as (I & _). pose proof I as (I0 & I1 & _).
  unfold istep. rewrite C, R. cbn [negb]. rewrite (iflush_nopending disk h P). cbn [ireads].
  destruct (iread1 ch disk h f) as [h1 r1] eqn:E1.
  pose proof (iread1_spec ch disk h f h1 r1 I E1) as SP.
  rewrite <- (rest_nil_iff disk (pos h) I0).
  unfold s_read1 in SP. destruct f as [n| | |]; cbn [eof_fmt] in EF; try discriminate.
  - destruct (n <? 0) eqn:N; [lia|].
    destruct (rest disk (pos h)) as [|b t] eqn:ER.
    + destruct SP as (_ & _ & _ & ->). split; [reflexivity|auto].
    + destruct SP as (_ & _ & _ & ->). cbn [snd].
      split; [discriminate|]. intros _ X. discriminate.
  - unfold line_of in SP. destruct (rest disk (pos h)) as [|b t] eqn:ER.
    + destruct SP as (_ & _ & _ & ->). split; [reflexivity|auto].
    + destruct (take_line (b :: t)) as [l nl].
      destruct SP as (_ & _ & _ & ->). cbn [snd].
      split; [discriminate|]. intros _ X. discriminate.
  - split; [|congruence]. intros E. rewrite E in SP. cbn in SP.
    destruct SP as (_ & _ & _ & ->). reflexivity.
Qed.

(* ---------- seek ---------- *)
Lemma seek_returns_offset_lemma : forall disk h w off d' h' r,
  Inv disk h -> i_closed h = false ->
  istep ch disk h (OSeek w off) = (d', h', r) ->
  let t := seek_target w off (abs_pos disk h) (len (abs_content disk h)) in
  abs_content d' h' = abs_content disk h /\
  (0 <= t -> r = ROff t /\ abs_pos d' h' = t) /\
  (t < 0 -> r = RFail /\ abs_pos d' h' = abs_pos disk h).
Proof.
  intros disk h w off d' h' r IV C EI t.
  destruct (sstep true (abs_content disk h) (abs_h disk h) (OSeek w off)) as [[c' s'] r'] eqn:ES.
  assert (NU : r' <> RUnsupported).
  { unfold sstep in ES. cbn [s_closed abs_h] in ES. rewrite C in ES.
    destruct (_ <? 0) in ES; injection ES as <- <- <-; discriminate. }
  destruct (step_sim ch disk h LWrite LNone (OSeek w off) d' h' r c' s' r' IV
              ltac:(discriminate) eq_refl EI ES NU) as (_ & _ & EC & EH & RS).
  unfold sstep in ES. cbn [s_closed s_pos abs_h] in ES. rewrite C in ES. fold t in ES.
  destruct (t <? 0) eqn:NEG; injection ES as <- <- <-.
  - split; [symmetry; exact EC|]. split; [lia|]. intros _.
    subst r. split; [reflexivity|].
    injection EH as EP _. symmetry; exact EP.
  - split; [symmetry; exact EC|]. split; [|lia]. intros _.
    subst r. split; [reflexivity|].
    injection EH as EP _. symmetry; exact EP.
Qed.

(* ---------- append ---------- *)
Lemma abs_pos_nonneg disk h : Inv disk h -> 0 <= abs_pos disk h.
Proof.
  intros ((I0 & _) & _). unfold abs_pos, abs_view. apply s_write1_pos_nonneg. exact I0.
Qed.

Lemma append_writes_at_end_lemma : forall disk h ss d' h' r,
  Inv disk h -> i_closed h = false -> i_wr h = true -> i_app h = true ->
  istep ch disk h (OWrite ss) = (d', h', r) ->
  r = RTrue /\ abs_content d' h' = abs_content disk h ++ concat ss /\
  (concat ss <> [] -> abs_pos d' h' = len (abs_content d' h')).
Proof.
  intros disk h ss d' h' r IV C W A EI.
  destruct (sstep true (abs_content disk h) (abs_h disk h) (OWrite ss)) as [[c' s'] r'] eqn:ES.
  pose proof ES as ES0.
  unfold sstep in ES. cbn [s_closed s_wr s_app s_pos abs_h] in ES. rewrite C, W, A in ES. cbn [negb] in ES.
  rewrite fold_s_write1_concat in ES by (apply abs_pos_nonneg; exact IV).
  assert (NU : r' <> RUnsupported).
  { destruct (s_write1 true _ (concat ss)) in ES. injection ES as _ _ <-. discriminate. }
  destruct (step_sim ch disk h LWrite LWrite (OWrite ss) d' h' r c' s' r' IV
              ltac:(discriminate) eq_refl EI ES0 NU) as (_ & _ & EC & EH & RS).
  unfold s_write1 in ES. destruct (concat ss) as [|b t] eqn:EC0.
  - injection ES as <- <- <-. subst r.
    split; [reflexivity|]. split; [rewrite app_nil_r; symmetry; exact EC|congruence].
  - injection ES as <- <- <-. subst r.
    split; [reflexivity|]. split; [symmetry; exact EC|]. intros _.
    injection EH as EP _. rewrite <- EP, <- EC, len_app. reflexivity.
Qed.

(* ---------- closed handles ---------- *)
(* [rbuf h = []]: close gives the read-ahead up ([close_closes]); it is what makes a step of a
   lines iterator obtained before the close raise too *)
Lemma closed_handle_raises_lemma : forall disk h o,
  i_closed h = true -> rbuf h = [] -> istep ch disk h o = (disk, h, RRaise).
Proof. intros disk h o C E. unfold istep. rewrite C, E. destruct o; reflexivity. Qed.

Lemma closed_run_raises : forall ops disk h,
  i_closed h = true -> rbuf h = [] -> irun ch disk h ops = (disk, h, map (fun _ => RRaise) ops).
Proof.
  induction ops as [|o ops IH]; intros disk h C E; [reflexivity|].
  cbn [irun map]. rewrite closed_handle_raises_lemma by assumption. rewrite IH by assumption. reflexivity.
Qed.

Lemma close_closes : forall disk h d' h' r,
  Inv disk h -> i_closed h = false -> istep ch disk h OClose = (d', h', r) ->
  i_closed h' = true /\ rbuf h' = [] /\ r = RTrue.
Proof.
  intros disk h d' h' r (_ & NR & _) C E. unfold istep in E. rewrite C in E.
  destruct (iflush disk (upd_closed h)) as [d1 h1] eqn:F. injection E as <- <- <-.
  assert (G : i_closed h1 = true /\ rbuf h1 = rbuf h /\ i_rd h1 = i_rd h).
  { unfold iflush in F. cbn [wb upd_closed] in F. destruct (wb h) as [[buf cap]|].
    - destruct (fd_write _ _ _ _) in F. injection F as <- <-. repeat split.
    - injection F as <- <-. repeat split. }
  destruct G as (G1 & G2 & G3). unfold abandon. destruct (i_rd h1) eqn:RD.
  - cbn. rewrite G1. repeat split.
  - rewrite G1, G2. rewrite (NR (eq_sym G3)). repeat split.
Qed.

End Thm.

(* ---------- where the hypotheses of io_refines cannot be dropped ---------- *)
Definition refines_on (ch : Z -> Z -> Z -> Z) (m : omode) (init : bytes) (ops : list op) : Prop :=
  let '(d', h', rs) := irun ch (fst (i_open m init)) (snd (i_open m init)) ops in
  let '(c', s', rs') := srun false (fst (s_open m init)) (snd (s_open m init)) ops in
  rs = rs' /\ c' = abs_content d' h' /\ s' = abs_h d' h'.

(* C19-3: with a "\r\n" in the file the line rule of the code is not Lua 5.1's *)
Lemma io_refines_cr_refuted_lemma :
  exists m init ops,
    disc1 LNone ops = true /\ forallb op_cr_free ops = true /\
    supported (spec_results false (fst (s_open m init)) (snd (s_open m init)) ops) = true /\
    ~ refines_on ch_full m init ops.
Proof.
  exists MR, [97;98;99;13;10;120], [ORead [FLine]].
  do 3 (split; [reflexivity|]). intros H. unfold refines_on in H.
  vm_compute in H. destruct H as (F & _). discriminate F.
Qed.

(* the property at full strength (no restriction on "\r"): false of the code as it is, by
   the listed finding C19-3 *)
Definition io_refines_full : Prop :=
  forall (ch : Z -> Z -> Z -> Z) m init ops,
    disc1 LNone ops = true ->
    supported (spec_results false (fst (s_open m init)) (snd (s_open m init)) ops) = true ->
    refines_on ch m init ops.

Lemma io_refines_full_refuted_lemma : ~ io_refines_full.
Proof.
  intros H. destruct io_refines_cr_refuted_lemma as (m & init & ops & D & _ & S & N).
  apply N. apply H; assumption.
Qed.
