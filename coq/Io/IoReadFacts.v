(* C19 — the buffered reader: every primitive consumes a prefix of the logical remainder
   [rem h = rbuf h ++ rest disk (ofs h)], whatever the chunking. *)
From GL Require Import Common.Bytes Common.BytesFacts Io.IoSpec Io.IoImpl Io.IoBytesFacts.
From Coq Require Import Lia ZifyBool.

(* ---------- read(2) ---------- *)
Lemma fd_read_cases ch disk o tk req : 0 <= o ->
  (fd_read ch disk o tk req = [] /\ len disk <= o) \/
  (exists c, 1 <= c /\ c <= len disk - o /\ c <= Z.max 1 req /\
             fd_read ch disk o tk req = slice disk o (o + c)).
Proof.
  intros Ho. unfold fd_read. destruct (len disk - o <=? 0) eqn:E.
  - left. split; [reflexivity|lia].
  - right. eexists. split; [|split; [|split; [|reflexivity]]]; lia.
Qed.

Lemma fd_read_prefix ch disk o tk req : 0 <= o ->
  rest disk o = fd_read ch disk o tk req ++ rest disk (o + len (fd_read ch disk o tk req)).
Proof.
  intros Ho. destruct (fd_read_cases ch disk o tk req Ho) as [[E _]|(c & H1 & H2 & _ & E)]; rewrite E.
  - rewrite len_nil, Z.add_0_r. reflexivity.
  - rewrite slice_len by lia. replace (o + (o + c - o)) with (o + c) by lia.
    apply rest_split; lia.
Qed.

Lemma fd_read_nil_iff ch disk o tk req : 0 <= o ->
  (fd_read ch disk o tk req = [] <-> rest disk o = []).
Proof.
  intros Ho. rewrite rest_nil_iff by exact Ho.
  destruct (fd_read_cases ch disk o tk req Ho) as [[E L]|(c & H1 & H2 & _ & E)]; rewrite E.
  - tauto.
  - split; intros H; [|lia].
    assert (L : len (slice disk o (o + c)) = o + c - o) by (apply slice_len; lia).
    rewrite H, len_nil in L. lia.
Qed.

Lemma fd_read_len_le ch disk o tk req : 0 <= o -> 1 <= req -> len (fd_read ch disk o tk req) <= req.
Proof.
  intros Ho Hr. destruct (fd_read_cases ch disk o tk req Ho) as [[E _]|(c & H1 & H2 & H3 & E)]; rewrite E.
  - rewrite len_nil; lia.
  - rewrite slice_len by lia. lia.
Qed.

(* ---------- list helpers ---------- *)
Lemma span_app p r : r = fst (span p r) ++ snd (span p r).
Proof.
  induction r as [|b r IH]; [reflexivity|]. simpl. destruct (p b); [|reflexivity].
  destruct (span p r) as [a t]. simpl in *. now rewrite <- IH.
Qed.

Lemma hd_error_app_cons {A} (l : list A) b t r : l = b :: t -> hd_error (l ++ r) = Some b.
Proof. intros ->. reflexivity. Qed.

Lemma firstn_app_le {A} (n : nat) (a b : list A) : (length a <= n)%nat ->
  firstn n (a ++ b) = a ++ firstn (n - length a) b.
Proof. intros H. rewrite firstn_app. rewrite firstn_all2 by exact H. reflexivity. Qed.

Lemma skipn_app_le {A} (n : nat) (a b : list A) : (n <= length a)%nat ->
  skipn n (a ++ b) = skipn n a ++ b.
Proof.
  intros H. rewrite skipn_app. replace (n - length a)%nat with O by lia. reflexivity.
Qed.

Section Reader.
Variable ch : Z -> Z -> Z -> Z.
Variable disk : bytes.

Definition pos (h : ihandle) : Z := ofs h - len (rbuf h).
Definition rem (h : ihandle) : bytes := rbuf h ++ rest disk (ofs h).

(* the buffer is a copy of the disk bytes just before the descriptor offset *)
Definition Rinv (h : ihandle) : Prop :=
  0 <= pos h /\ rest disk (pos h) = rem h /\ len (rbuf h) <= RBUF.

Definition same_frame (h h' : ihandle) : Prop :=
  wb h' = wb h /\ i_rd h' = i_rd h /\ i_wr h' = i_wr h /\ i_app h' = i_app h /\ i_closed h' = i_closed h.

(* h' is h after consuming the first n bytes of the remainder *)
Definition adv_by (h h' : ihandle) (n : Z) : Prop :=
  0 <= n /\ n <= len (rem h) /\ pos h' = pos h + n /\ rem h' = skipn (Z.to_nat n) (rem h)
  /\ len (rbuf h') <= RBUF /\ same_frame h h'.

Lemma same_frame_refl h : same_frame h h.
Proof. unfold same_frame. repeat split. Qed.

Lemma same_frame_trans h1 h2 h3 : same_frame h1 h2 -> same_frame h2 h3 -> same_frame h1 h3.
Proof.
  unfold same_frame. intros (A1 & A2 & A3 & A4 & A5) (B1 & B2 & B3 & B4 & B5).
  repeat split; congruence.
Qed.

Lemma same_frame_upd_r h o rb tk : same_frame h (upd_r h o rb tk).
Proof. unfold same_frame, upd_r; cbn. repeat split. Qed.

Lemma Rinv_ofs h : Rinv h -> 0 <= ofs h.
Proof. unfold Rinv, pos. pose proof (len_nonneg (rbuf h)). lia. Qed.

Lemma adv_by_Rinv h h' n : Rinv h -> adv_by h h' n -> Rinv h'.
Proof.
  intros (P & R & _) (N0 & N1 & Hp & Hr & Hl & _). unfold Rinv. rewrite Hp. split; [lia|]. split; [|exact Hl].
  rewrite rest_rest by lia. rewrite R, Hr. reflexivity.
Qed.

Lemma adv_by_refl h : len (rbuf h) <= RBUF -> adv_by h h 0.
Proof.
  intros L. unfold adv_by. pose proof (len_nonneg (rem h)).
  split; [lia|]. split; [lia|]. split; [lia|]. split; [reflexivity|]. split; [exact L|apply same_frame_refl].
Qed.

Lemma adv_by_trans h h1 h2 n m : adv_by h h1 n -> adv_by h1 h2 m -> adv_by h h2 (n + m).
Proof.
  intros (A0 & A1 & A2 & A3 & A4 & A5) (B0 & B1 & B2 & B3 & B4 & B5).
  assert (L : len (rem h1) = len (rem h) - n).
  { rewrite A3, len_skipn. lia. }
  unfold adv_by. split; [lia|]. split; [lia|]. split; [lia|]. split; [|split; [exact B4|]].
  - rewrite B3, A3, skipn_add. f_equal. lia.
  - eapply same_frame_trans; eauto.
Qed.

(* the usual way to establish adv_by: the remainder splits as d ++ (remainder of h') *)
Lemma adv_by_intro h h' d :
  rem h = d ++ rem h' -> pos h' = pos h + len d -> len (rbuf h') <= RBUF -> same_frame h h' ->
  adv_by h h' (len d).
Proof.
  intros R P L F. unfold adv_by. pose proof (len_nonneg d). pose proof (len_nonneg (rem h')).
  split; [lia|]. split; [rewrite R, len_app; lia|]. split; [exact P|]. split; [|split; assumption].
  rewrite R. symmetry. apply skipn_len_app.
Qed.

Lemma adv_by_split h h' n : adv_by h h' n -> rem h = firstn (Z.to_nat n) (rem h) ++ rem h'.
Proof. intros (_ & _ & _ & R & _). rewrite R. symmetry. apply firstn_skipn. Qed.

(* ---------- fill ---------- *)
Lemma fill_spec h h' e : Rinv h -> len (rbuf h) < RBUF -> fill ch disk h = (h', e) ->
  adv_by h h' 0 /\
  exists d, rbuf h' = rbuf h ++ d /\ ofs h' = ofs h + len d /\
            (e = true <-> d = []) /\ (d = [] <-> rest disk (ofs h) = []).
Proof.
  intros I L F. pose proof (Rinv_ofs h I) as Ho. unfold fill in F.
  set (d := fd_read ch disk (ofs h) (tick h) (RBUF - len (rbuf h))) in *.
  injection F as <- <-.
  assert (Ld : len d <= RBUF - len (rbuf h)) by (apply fd_read_len_le; lia).
  assert (Pre : rest disk (ofs h) = d ++ rest disk (ofs h + len d)) by (apply fd_read_prefix; exact Ho).
  split.
  - replace 0 with (len (@nil Z)) by reflexivity. apply adv_by_intro.
    + unfold rem; simpl. rewrite Pre at 1. rewrite <- app_assoc. reflexivity.
    + unfold pos; simpl. rewrite len_app, len_nil. lia.
    + simpl. rewrite len_app. lia.
    + apply same_frame_upd_r.
  - exists d. simpl. repeat split; auto.
    + destruct d; [reflexivity|discriminate].
    + intros ->; reflexivity.
    + apply fd_read_nil_iff; exact Ho.
    + apply fd_read_nil_iff; exact Ho.
Qed.

(* ---------- peekb / adv ---------- *)
Lemma peekb_spec h h' c : Rinv h -> peekb ch disk h = (h', c) ->
  adv_by h h' 0 /\ c = hd_error (rem h) /\ c = hd_error (rbuf h').
Proof.
  intros I P. unfold peekb in P. destruct (rbuf h) as [|b t] eqn:E.
  - destruct (fill ch disk h) as [h1 e] eqn:F. injection P as <- <-.
    assert (L : len (rbuf h) < RBUF) by (rewrite E, len_nil; unfold RBUF; lia).
    destruct (fill_spec h h1 e I L F) as (A & d & R1 & _ & _ & Hd).
    split; [exact A|]. split; [|reflexivity].
    rewrite R1, E. cbn [app]. unfold rem. rewrite E. cbn [app].
    destruct d as [|x d'].
    + assert (N : rest disk (ofs h) = []) by (apply Hd; reflexivity). rewrite N. reflexivity.
    + pose proof (Rinv_ofs h I) as Ho.
      destruct A as (_ & _ & _ & A3 & _). unfold rem in A3. rewrite R1, E in A3. cbn [app skipn Z.to_nat] in A3.
      rewrite <- A3. reflexivity.
  - injection P as <- <-. destruct I as (_ & _ & L). split; [apply adv_by_refl; exact L|].
    unfold rem. rewrite E. split; reflexivity.
Qed.

Lemma adv_spec h b t : Rinv h -> rbuf h = b :: t -> adv_by h (adv h) 1.
Proof.
  intros (_ & _ & L) E. replace 1 with (len [b]) by reflexivity. apply adv_by_intro.
  - unfold rem, adv; simpl. rewrite E. reflexivity.
  - unfold pos, adv. cbn [ofs rbuf upd_r]. rewrite E. cbn [tl]. rewrite len_cons. change (len [b]) with 1. lia.
  - unfold adv. cbn [ofs rbuf upd_r]. rewrite E in *. cbn [tl]. rewrite len_cons in L. pose proof (len_nonneg t). lia.
  - apply same_frame_upd_r.
Qed.

(* ---------- sspan = span on the remainder ---------- *)
Lemma sspan_spec p : forall fuel h acc, Rinv h -> (length (rem h) < fuel)%nat ->
  exists h', sspan ch fuel p disk h acc = Some (h', rev acc ++ fst (span p (rem h))) /\
             adv_by h h' (len (fst (span p (rem h)))) /\
             rem h' = snd (span p (rem h)).
Proof.
  induction fuel as [|f IH]; intros h acc I Fu; [lia|].
  cbn [sspan]. destruct (peekb ch disk h) as [h1 c] eqn:P.
  destruct (peekb_spec h h1 c I P) as (A & C1 & C2).
  assert (I1 : Rinv h1) by (eapply adv_by_Rinv; eauto).
  assert (R1 : rem h1 = rem h) by (destruct A as (_ & _ & _ & R & _); exact R).
  destruct c as [b|].
  - destruct (rem h) as [|b' R'] eqn:ER; [discriminate|]. injection C1 as ->.
    cbn [span]. destruct (p b') eqn:Pb.
    + destruct (rbuf h1) as [|b'' t] eqn:E1; [discriminate|]. injection C2 as <-.
      pose proof (adv_spec h1 b' t I1 E1) as A1.
      assert (I2 : Rinv (adv h1)) by (eapply adv_by_Rinv; eauto).
      assert (R2 : rem (adv h1) = R').
      { destruct A1 as (_ & _ & _ & R & _). rewrite R, R1. reflexivity. }
      destruct (IH (adv h1) (b' :: acc) I2) as (h' & S & A2 & R3).
      { rewrite R2. simpl in Fu. lia. }
      exists h'. rewrite R2 in *. destruct (span p R') as [a t'] eqn:ES. cbn [fst snd] in *.
      split; [rewrite S; cbn [rev]; rewrite <- app_assoc; reflexivity|]. split; [|exact R3].
      rewrite len_cons. replace (1 + len a) with (0 + (1 + len a)) by lia.
      eapply adv_by_trans; [exact A|]. eapply adv_by_trans; eauto.
    + exists h1. cbn [fst snd]. rewrite app_nil_r, len_nil. split; [reflexivity|]. split; [exact A|].
      rewrite R1. reflexivity.
  - destruct (rem h) as [|b' R'] eqn:ER; [|discriminate].
    exists h1. cbn [span fst snd]. rewrite app_nil_r, len_nil. split; [reflexivity|]. split; [exact A|].
    rewrite R1. reflexivity.
Qed.

(* ---------- Read / readBufioSize ---------- *)
Lemma bRead_spec h h' k d : Rinv h -> 0 < k -> bRead ch disk h k = (h', d) ->
  rem h = d ++ rem h' /\ adv_by h h' (len d) /\ len d <= k /\ (d = [] <-> rem h = []).
Proof.
  intros I Hk B. pose proof (Rinv_ofs h I) as Ho. destruct I as (I0 & I1 & I2).
  unfold bRead in B. destruct (rbuf h) as [|b t] eqn:E.
  - assert (RH : rem h = rest disk (ofs h)) by (unfold rem; rewrite E; reflexivity).
    assert (PH : pos h = ofs h) by (unfold pos; rewrite E, len_nil; lia).
    destruct (RBUF <=? k) eqn:Big.
    + set (x := fd_read ch disk (ofs h) (tick h) k) in *. injection B as <- <-.
      assert (S : rem h = x ++ rem (upd_r h (ofs h + len x) [] (tick h + 1))).
      { rewrite RH. unfold rem; simpl. apply fd_read_prefix; exact Ho. }
      split; [exact S|]. split; [|split].
      * apply adv_by_intro; [exact S| | |apply same_frame_upd_r].
        -- unfold pos at 1; simpl. rewrite len_nil. lia.
        -- simpl. rewrite len_nil. unfold RBUF; lia.
      * apply fd_read_len_le; lia.
      * rewrite RH. apply fd_read_nil_iff; exact Ho.
    + set (x := fd_read ch disk (ofs h) (tick h) RBUF) in *.
      set (n := Z.to_nat (Z.min k (len x))) in *. injection B as <- <-.
      assert (Lx : len x <= RBUF) by (apply fd_read_len_le; [exact Ho|unfold RBUF; lia]).
      assert (Ln : (n <= length x)%nat) by (unfold n, len; lia).
      assert (S : rem h = firstn n x ++ rem (upd_r h (ofs h + len x) (skipn n x) (tick h + 1))).
      { rewrite RH. unfold rem; simpl. rewrite app_assoc, firstn_skipn. apply fd_read_prefix; exact Ho. }
      split; [exact S|]. split; [|split].
      * apply adv_by_intro; [exact S| | |apply same_frame_upd_r].
        -- unfold pos at 1; simpl. rewrite len_skipn, len_firstn. unfold len in *. lia.
        -- simpl. rewrite len_skipn. lia.
      * rewrite len_firstn. unfold n. lia.
      * rewrite RH. rewrite <- (fd_read_nil_iff ch disk (ofs h) (tick h) RBUF Ho). fold x.
        split; intros H.
        -- apply len_0_nil. assert (L : len (firstn n x) = 0) by (rewrite H; reflexivity).
           rewrite len_firstn in L. unfold n in L. pose proof (len_nonneg x). lia.
        -- rewrite H. apply firstn_nil.
  - set (rb := b :: t) in *. set (n := Z.to_nat (Z.min k (len rb))) in *. injection B as <- <-.
    assert (Lr : 1 <= len rb) by (unfold rb; rewrite len_cons; pose proof (len_nonneg t); lia).
    assert (Ln : (n <= length rb)%nat) by (unfold n, len; lia).
    assert (S : rem h = firstn n rb ++ rem (upd_r h (ofs h) (skipn n rb) (tick h))).
    { unfold rem; simpl. rewrite E. fold rb. rewrite app_assoc, firstn_skipn. reflexivity. }
    split; [exact S|]. split; [|split].
    + apply adv_by_intro; [exact S| | |apply same_frame_upd_r].
      * unfold pos; simpl. rewrite E. fold rb. rewrite len_skipn, len_firstn. unfold len in *. lia.
      * simpl. rewrite len_skipn. lia.
    + rewrite len_firstn. unfold n. lia.
    + split; intros H.
      * assert (L : len (firstn n rb) = 0) by (rewrite H; reflexivity).
        rewrite len_firstn in L. unfold n in L. lia.
      * unfold rem in H. rewrite E in H. discriminate.
Qed.

Lemma readSize_spec : forall fuel h want acc, Rinv h -> (length (rem h) < fuel)%nat ->
  exists h' eof,
    readSize ch fuel disk h want acc = Some (h', acc ++ firstn (Z.to_nat want) (rem h), eof) /\
    adv_by h h' (len (firstn (Z.to_nat want) (rem h))) /\
    (0 < want -> len (rem h) < want -> eof = true).
Proof.
  induction fuel as [|f IH]; intros h want acc I Fu; [lia|].
  assert (L0 : len (rbuf h) <= RBUF) by (destruct I as (_ & _ & L); exact L).
  cbn [readSize]. destruct (want <=? 0) eqn:W.
  - exists h, false. replace (Z.to_nat want) with O by lia. cbn [firstn]. rewrite app_nil_r, len_nil.
    split; [reflexivity|]. split; [apply adv_by_refl; exact L0|lia].
  - destruct (bRead ch disk h (Z.min want RCHUNK)) as [h1 d] eqn:B.
    destruct (bRead_spec h h1 (Z.min want RCHUNK) d I ltac:(unfold RCHUNK; lia) B) as (S & A & Ld0 & Nd).
    assert (Ld : len d <= want) by lia.
    assert (I1 : Rinv h1) by (eapply adv_by_Rinv; eauto).
    destruct d as [|x d'].
    + assert (N : rem h = []) by (apply Nd; reflexivity).
      exists h1, true. rewrite N. rewrite firstn_nil, app_nil_r, len_nil. split; [reflexivity|].
      split; [|reflexivity]. rewrite len_nil in A. exact A.
    + set (d := x :: d') in *.
      assert (Ld1 : 1 <= len d) by (unfold d; rewrite len_cons; pose proof (len_nonneg d'); lia).
      destruct (IH h1 (want - len d) (acc ++ d) I1) as (h' & eof & RS & A2 & EO).
      { rewrite S, app_length in Fu. unfold d in Fu. simpl in Fu. lia. }
      exists h', eof.
      assert (FN : firstn (Z.to_nat want) (rem h) = d ++ firstn (Z.to_nat (want - len d)) (rem h1)).
      { rewrite S. rewrite firstn_app_le by (unfold len in *; lia). f_equal. f_equal. unfold len; lia. }
      split; [|split].
      * cbn [d]. fold d. rewrite RS, FN, <- app_assoc. reflexivity.
      * rewrite FN, len_app. eapply adv_by_trans; eauto.
      * intros W1 W2. apply EO; [|rewrite S, len_app in W2; lia].
        rewrite S, len_app in W2. pose proof (len_nonneg (rem h1)). lia.
Qed.

End Reader.
