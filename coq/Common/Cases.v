(* Shared by every cases shard: the list of case ids on which a boolean check fails. *)
From Coq Require Import List ZArith.
Import ListNotations.

Definition mism {C : Type} (f : C -> bool) (l : list (Z * C)) : list Z :=
  map fst (filter (fun p => negb (f (snd p))) l).

Lemma mism_nil_all {C} (f : C -> bool) l :
  mism f l = [] -> forall i c, In (i, c) l -> f c = true.
Proof.
  unfold mism. induction l as [|[j d] l IH]; simpl; intros H i c Hin; [contradiction|].
  destruct (f d) eqn:E; simpl in H.
  - destruct Hin as [Heq|Hin]; [inversion Heq; subst; exact E | eapply IH; eauto].
  - discriminate.
Qed.
