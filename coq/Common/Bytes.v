(* Byte strings as lists of Z in [0,256); 0-based half-open slices as Go's s[a:b]. *)
From Coq Require Export List ZArith Lia Bool.
Export ListNotations.
Open Scope Z_scope.

Definition bytes := list Z.
Definition len {A} (s : list A) : Z := Z.of_nat (length s).

Definition slice {A} (s : list A) (a b : Z) : list A :=
  firstn (Z.to_nat (b - a)) (skipn (Z.to_nat a) s).

(* 0-based read; None outside. *)
Definition zth {A} (s : list A) (i : Z) : option A :=
  if i <? 0 then None else nth_error s (Z.to_nat i).

Definition is_byte (b : Z) : bool := (0 <=? b) && (b <? 256).
Definition is_bytes (s : bytes) : bool := forallb is_byte s.

Fixpoint beqb (a b : bytes) : bool :=
  match a, b with
  | [], [] => true
  | x :: a', y :: b' => (x =? y) && beqb a' b'
  | _, _ => false
  end.

Fixpoint list_eqb {A} (eq : A -> A -> bool) (a b : list A) : bool :=
  match a, b with
  | [], [] => true
  | x :: a', y :: b' => eq x y && list_eqb eq a' b'
  | _, _ => false
  end.

Definition opt_eqb {A} (eq : A -> A -> bool) (a b : option A) : bool :=
  match a, b with
  | None, None => true
  | Some x, Some y => eq x y
  | _, _ => false
  end.

Fixpoint repeat_app {A} (s : list A) (n : nat) : list A :=
  match n with O => [] | S k => s ++ repeat_app s k end.
