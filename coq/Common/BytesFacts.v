From GL Require Import Common.Bytes.

Lemma len_nonneg {A} (s : list A) : 0 <= len s.
Proof. unfold len; lia. Qed.

Lemma len_app {A} (a b : list A) : len (a ++ b) = len a + len b.
Proof. unfold len; rewrite app_length; lia. Qed.

Lemma slice_empty {A} (s : list A) a b : b <= a -> slice s a b = [].
Proof. intros H; unfold slice. replace (Z.to_nat (b - a)) with O by lia. reflexivity. Qed.

Lemma slice_beyond {A} (s : list A) a b : len s <= a -> slice s a b = [].
Proof.
  intros H; unfold slice, len in *. rewrite skipn_all2 by lia. apply firstn_nil.
Qed.

Lemma slice_len {A} (s : list A) a b :
  0 <= a -> a <= b -> b <= len s -> len (slice s a b) = b - a.
Proof.
  intros Ha Hab Hb; unfold slice, len in *.
  rewrite firstn_length, skipn_length. lia.
Qed.

Lemma slice_full {A} (s : list A) : slice s 0 (len s) = s.
Proof. unfold slice, len. simpl. rewrite Z.sub_0_r, Nat2Z.id. apply firstn_all. Qed.

Lemma slice_clip_hi {A} (s : list A) a b : len s <= b -> slice s a b = slice s a (len s).
Proof.
  intros H; unfold slice, len in *.
  destruct (Z_lt_le_dec a 0) as [Ha|Ha].
  - replace (Z.to_nat a) with O by lia. simpl.
    rewrite !firstn_all2; auto; lia.
  - destruct (Z_le_gt_dec (Z.of_nat (length s)) a) as [Hb|Hb].
    + rewrite skipn_all2 by lia. now rewrite !firstn_nil.
    + rewrite !firstn_all2; auto; rewrite skipn_length; lia.
Qed.

Lemma beqb_eq a b : beqb a b = true <-> a = b.
Proof.
  revert b; induction a as [|x a IH]; destruct b as [|y b]; simpl; split; intros H;
    try reflexivity; try discriminate.
  - apply andb_true_iff in H as [H1 H2]. apply Z.eqb_eq in H1. apply IH in H2. congruence.
  - inversion H; subst. rewrite Z.eqb_refl. simpl. now apply IH.
Qed.

Lemma rev_slice_invol {A} (s : list A) : rev (rev s) = s.
Proof. apply rev_involutive. Qed.
