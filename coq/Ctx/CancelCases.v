(* Case evaluator for the C11 correspondence shards. *)
From Coq Require Import List Bool Arith ZArith.
From GL Require Import Ctx.CancelModel.
Import ListNotations.
Open Scope Z_scope.

Inductive case :=
(* The k-th dispatch poll of a real run found the context done.
   s: abstract frame stack observed at that poll (top first); go/fuel: the choices of Go library frames
   that get control back (empty except for the known-finding witness);
   trace_ok: frame stack and emit count at poll k equal those of the run whose context fires later;
   prefix_ok: the values emitted before the poll are a prefix of the context-free run's;
   polls_after / emits_after: dispatch polls / host emit calls after the firing poll;
   outc: 0 DoString returned nil, 1 error containing the context's Err() text, 2 another error. *)
| CFire (s : list tag) (go : list gochoice) (fuel : Z) (trace_ok prefix_ok : bool)
        (polls_after emits_after outc : Z)
(* The context never fired: same = emit trace, outcome and error text equal the context-free run's. *)
| CNoFire (same trace_ok : bool)
(* Calibration chunk (straight line). script: class of every instruction of the compiled chunk
   (0 other, 1 CALL of emit, 2 RETURN); k: firing poll; emits: emit calls of the whole run;
   polls: dispatch polls of the whole run. *)
| CCalib (script : list Z) (k emits polls outc : Z)
(* A channel operation was parked when the context was cancelled from outside. *)
| CBlock (s : list tag) (polls_after emits_after outc : Z) (returned : bool)
(* A Go-side failure (hang, crash); recorded through GoFail, nothing to evaluate. *)
| CGoFail.

Definition outc_of (e : exec_end) : Z :=
  match e with
  | EndFinal Run => 0
  | EndFinal (Raising ECtx) => 1
  | EndFinal (Raising EOther) => 2
  | EndNeedsEffect => -2
  | EndBadChoice => -3
  | EndOutOfFuel => -4
  end.

Definition exec_fuel (s : list tag) (fuel : Z) : nat := (6 * length s + 12 * Z.to_nat fuel + 8)%nat.

(* Prediction of the machine from the state in which a poll (or a blocked operation) finds the
   context done: (dispatch attempts, completed instructions, outcome). *)
Definition predict (s : list tag) (go : list gochoice) (fuel : Z) : Z * Z * Z :=
  let '(tr, _, e) := exec (exec_fuel s fuel) (fired s (Z.to_nat fuel)) go [] in
  (Z.of_nat (attempts tr), Z.of_nat (instrs tr), outc_of e).

Definition effect_of_class (c : Z) : effect :=
  if c =? 1 then ECall [TGoPlain] 0 else if c =? 2 then ERet else ENop.

Definition is_emit (l : label) : bool :=
  match l with LInstr _ (ECall [TGoPlain] _) => true | _ => false end.

Definition calib_predict (script : list Z) (k : Z) : Z * Z * Z :=
  let sc := map effect_of_class script in
  let '(tr, _, e) := drive (4 * length sc + 16) init_attached sc (Z.to_nat k) 0 [] in
  (Z.of_nat (length (filter is_emit tr)), Z.of_nat (attempts tr), outc_of e).

Definition eq3 (a b : Z * Z * Z) : bool :=
  let '(a1, a2, a3) := a in let '(b1, b2, b3) := b in (a1 =? b1) && (a2 =? b2) && (a3 =? b3).

(* The implementation model agrees exactly with what the code did. *)
Definition check_impl (c : case) : bool :=
  match c with
  | CFire s go fuel trace_ok prefix_ok pa ea outc =>
      trace_ok && prefix_ok && eq3 (predict s go fuel) (pa + 1, ea, outc)
  | CNoFire same trace_ok => same && trace_ok
  | CCalib script k emits polls outc => eq3 (calib_predict script k) (emits, polls, outc)
  | CBlock s pa ea outc returned => returned && eq3 (predict s [] 0) (pa, ea, outc)
  | CGoFail => true
  end.

Definition count_emits (script : list Z) : Z := Z.of_nat (length (filter (Z.eqb 1) script)).

(* The property itself on the observed behaviour. *)
Definition check_spec (c : case) : bool :=
  match c with
  | CFire s _ _ trace_ok prefix_ok pa ea outc =>
      (* no host call after the firing poll; stops within 2*depth+1 attempts (the firing poll included);
         the error carries the reason; until then the run is the context-free run *)
      (ea =? 0) && (pa + 1 <=? 2 * Z.of_nat (depth s) + 1) && (outc =? 1) && prefix_ok && trace_ok
  | CNoFire same trace_ok => same && trace_ok
  | CCalib script k emits polls outc =>
      let n := Z.of_nat (length script) in
      if (1 <=? k) && (k <=? n)
      then (emits =? count_emits (firstn (Z.to_nat (k - 1)) script)) && (polls =? k) && (outc =? 1)
      else (emits =? count_emits script) && (polls =? n) && (outc =? 0)
  | CBlock s pa ea outc returned =>
      returned && (ea =? 0) && (pa <=? 2 * Z.of_nat (depth s) + 1) && (outc =? 1)
  | CGoFail => true
  end.
