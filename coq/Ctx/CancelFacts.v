(* C11 — proofs about the abstract cancellation machine of CancelModel.v. *)
From Coq Require Import List Bool Arith Lia.
From GL Require Import Ctx.CancelModel.
Import ListNotations.

(* ---------------------------------------------------------------- basic facts *)

Lemma polls_all_app s1 s2 : polls_all (s1 ++ s2) = polls_all s1 && polls_all s2.
Proof. unfold polls_all. apply forallb_app. Qed.

Lemma cur_flag_true s : polls_all s = true -> cur_flag true s = true.
Proof.
  induction s as [|t s IH]; simpl; intros H; [reflexivity|].
  apply andb_prop in H as [Ht Hs]. destruct t; simpl in *; auto.
Qed.

Lemma frame_ok_polls t : frame_ok true t = true -> tag_polls t = true.
Proof. destruct t as [p| |p| |h r|w p|pe]; simpl; try reflexivity; try (destruct p; simpl; congruence); try (destruct pe; simpl; congruence). Qed.

Lemma frames_ok_polls fs : frames_ok true fs = true -> polls_all fs = true.
Proof.
  induction fs as [|t fs IH]; simpl; intros H; [reflexivity|].
  apply andb_prop in H as [Ht Hs]. rewrite (frame_ok_polls _ Ht), (IH Hs). reflexivity.
Qed.

Lemma weight_app s1 s2 : weight (s1 ++ s2) = weight s1 + weight s2.
Proof. induction s1 as [|t s1 IH]; simpl; [reflexivity|]. rewrite IH. lia. Qed.

Lemma weight1_le2 t : weight1 t <= 2.
Proof. unfold weight1. destruct (role_of t); lia. Qed.

Lemma weight_le_len fs : weight fs <= 2 * length fs.
Proof. induction fs as [|t fs IH]; simpl; [lia|]. pose proof (weight1_le2 t). lia. Qed.

Lemma weight1_protected t : weight1 t <= 2 * (if is_protected t then 1 else 0).
Proof. unfold weight1, is_protected. destruct (role_of t); lia. Qed.

Lemma weight_le_protected s : weight s <= 2 * protected_depth s.
Proof.
  unfold protected_depth. induction s as [|t s IH]; simpl; [lia|].
  pose proof (weight1_protected t). destruct (is_protected t); simpl; lia.
Qed.

Lemma protected_le_depth s : protected_depth s <= depth s.
Proof.
  unfold protected_depth, depth. induction s as [|t s IH]; simpl; [lia|].
  destruct (is_protected t); simpl; lia.
Qed.

Lemma filter_app_len {A} (f : A -> bool) l1 l2 :
  length (filter f (l1 ++ l2)) = length (filter f l1) + length (filter f l2).
Proof. rewrite filter_app, app_length. reflexivity. Qed.

Lemma filter_len_le {A} (f : A -> bool) l : length (filter f l) <= length l.
Proof. induction l as [|x l IH]; simpl; [lia|]. destruct (f x); simpl; lia. Qed.

(* ---------------------------------------------------------------- the invariant of threads_inherit *)

Definition thread_ok (th : thread) : bool := fst th && polls_all (snd th).
Definition pool_ok (pl : list thread) : bool := forallb thread_ok pl.

(* Every thread (running or suspended) has a context derived from the attached one. *)
Definition Inv (σ : state) : Prop :=
  attached σ = true /\ polls_all (stk σ) = true /\ pool_ok (pool σ) = true.

Lemma pool_ok_nth pl i tf fr :
  pool_ok pl = true -> nth_error pl i = Some (tf, fr) -> tf = true /\ polls_all fr = true.
Proof.
  revert i. induction pl as [|th pl IH]; intros [|i] Hok Hn; simpl in *; try discriminate.
  - inversion Hn; subst. apply andb_prop in Hok as [H _]. unfold thread_ok in H; simpl in H.
    apply andb_prop in H. exact H.
  - apply andb_prop in Hok as [_ H]. eauto.
Qed.

Lemma pool_ok_remove pl i : pool_ok pl = true -> pool_ok (remove_nth i pl) = true.
Proof.
  revert i. induction pl as [|th pl IH]; intros [|i] Hok; simpl in *; auto.
  - apply andb_prop in Hok as [_ H]. exact H.
  - apply andb_prop in Hok as [H1 H2]. rewrite H1. simpl. auto.
Qed.

Lemma split_co_spec s a b r :
  split_co s = Some (a, b, r) -> s = a ++ b :: r /\ is_co b = true.
Proof.
  revert a b r. induction s as [|t s IH]; intros a b r H; simpl in H; [discriminate|].
  destruct t; try (destruct (split_co s) as [[[a' b'] r']|] eqn:E; [|discriminate];
    inversion H; subst; destruct (IH _ _ _ eq_refl) as [-> Hb]; split; [reflexivity|exact Hb]).
  inversion H; subst. split; reflexivity.
Qed.

Lemma apply_effect_inv σ e σ' : Inv σ -> apply_effect σ e = Some σ' -> Inv σ'.
Proof.
  destruct σ as [s m c a g pl]. unfold Inv, apply_effect; simpl.
  intros (Ha & Hs & Hp) H. subst a.
  destruct s as [|top below]; [discriminate|].
  rewrite (cur_flag_true _ Hs) in H.
  assert (Hb : polls_all below = true) by (simpl in Hs; apply andb_prop in Hs; tauto).
  destruct e.
  - inversion H; subst. simpl. auto.
  - destruct (frames_ok true fs) eqn:Ef; [|discriminate]. inversion H; subst; clear H. simpl.
    rewrite polls_all_app, (frames_ok_polls _ Ef), Hs. auto.
  - inversion H; subst. simpl. auto.
  - destruct (frames_ok true fs) eqn:Ef; [|discriminate]. inversion H; subst; clear H. simpl.
    rewrite polls_all_app, (frames_ok_polls _ Ef), Hb. auto.
  - inversion H; subst. simpl. auto.
  - inversion H; subst. simpl. rewrite Hp. auto.
  - destruct (nth_error pl i) as [[tf fr]|] eqn:En; [|discriminate].
    inversion H; subst; clear H. destruct (pool_ok_nth _ _ _ _ Hp En) as [-> Hfr]. simpl.
    rewrite polls_all_app, Hfr. simpl. simpl in Hs. rewrite Hs.
    rewrite (pool_ok_remove _ _ Hp). auto.
  - destruct (split_co (top :: below)) as [[[above b] rest]|] eqn:Esp; [|discriminate].
    destruct b; try discriminate. inversion H; subst; clear H.
    destruct (split_co_spec _ _ _ _ Esp) as [Heq _]. rewrite Heq in Hs.
    rewrite polls_all_app in Hs. apply andb_prop in Hs as [Hab Hr]. simpl in Hr.
    apply andb_prop in Hr as [Hpp Hr]. simpl. unfold thread_ok; simpl.
    rewrite Hpp, Hab, Hr, Hp. auto.
Qed.

Lemma handler_frame_polls h : tag_polls (handler_frame h true) = true.
Proof. destruct h; reflexivity. Qed.

Lemma step_inv σ l σ' : Inv σ -> step σ l σ' -> Inv σ'.
Proof.
  intros HI H. pose proof HI as (Ha & Hs & Hp).
  inversion H; subst; clear H; unfold Inv, with_stk in *; simpl in *.
  - eapply apply_effect_inv; eauto.
  - auto.
  - auto.
  - rewrite H0 in Hs. simpl in Hs. apply andb_prop in Hs as [_ Hs]. auto.
  - rewrite H0 in Hs. simpl in Hs. apply andb_prop in Hs as [_ Hs]. auto.
  - rewrite Ha in *.
    match goal with Hf : frames_ok _ _ = true |- _ => rewrite (cur_flag_true _ Hs) in Hf;
      rewrite polls_all_app, (frames_ok_polls _ Hf), Hs end. auto.
  - rewrite H0 in Hs. simpl in Hs. auto.
  - auto.
  - rewrite H0 in Hs. simpl in Hs. auto.
  - rewrite H0 in Hs. simpl in Hs. apply andb_prop in Hs as [_ Hs]. auto.
  - rewrite H0 in Hs. simpl in Hs. apply andb_prop in Hs as [_ Hs]. auto.
  - rewrite H0 in Hs. simpl in Hs. apply andb_prop in Hs as [_ Hs]. auto.
  - rewrite H0 in Hs. simpl in Hs. rewrite Ha. rewrite (cur_flag_true _ Hs).
    rewrite handler_frame_polls. simpl. auto.
  - auto.
Qed.

Lemma run_inv σ tr σ' : Inv σ -> run σ tr σ' -> Inv σ'.
Proof. intros HI H. induction H; eauto using step_inv. Qed.

Lemma init_inv : Inv init_attached.
Proof. unfold Inv; simpl; auto. Qed.

(* ---------------------------------------------------------------- after cancellation *)

(* A cancelled state all of whose threads poll. *)
Definition cstate (σ : state) : Prop := cancelled σ = true /\ Inv σ.

Lemma step_cstate σ l σ' : cstate σ -> step σ l σ' -> cstate σ' /\ is_instr l = false.
Proof.
  intros [Hc HI] H. split.
  - split; [|eapply step_inv; eauto].
    pose proof HI as (Ha & Hs & Hp).
    inversion H; subst; clear H; unfold with_stk; simpl; auto.
    + (* S_instr is impossible *)
      rewrite H0 in Hs. simpl in Hs. apply andb_prop in Hs as [Hpt _]. subst p.
      rewrite Hc in H2. discriminate.
  - pose proof HI as (Ha & Hs & Hp).
    inversion H; subst; clear H; try reflexivity.
    rewrite H0 in Hs. simpl in Hs. apply andb_prop in Hs as [Hpt _]. subst p.
    rewrite Hc in H2. discriminate.
Qed.

Lemma run_cstate σ tr σ' : cstate σ -> run σ tr σ' -> cstate σ' /\ instrs tr = 0.
Proof.
  intros HC H. induction H as [σ|σ l σ1 tr σ2 Hst Hr IH]; [auto|].
  destruct (step_cstate _ _ _ HC Hst) as [HC1 Hl]. destruct (IH HC1) as [HC2 Hi].
  split; [exact HC2|]. unfold instrs in *. simpl. rewrite Hl. exact Hi.
Qed.

Definition att1 (l : label) : nat := if is_attempt l then 1 else 0.

Lemma attempts_cons l tr : attempts (l :: tr) = att1 l + attempts tr.
Proof. unfold attempts, att1. simpl. destruct (is_attempt l); reflexivity. Qed.

Lemma step_potential σ l σ' : cstate σ -> step σ l σ' -> att1 l + potential σ' <= potential σ.
Proof.
  intros [Hc HI] H. pose proof HI as (Ha & Hs & Hp).
  destruct σ as [s m c a g pl]. simpl in *. subst c a.
  inversion H; subst; clear H; unfold potential, with_stk, att1; simpl in *; subst; simpl.
  - (* instr *) simpl in Hs. apply andb_prop in Hs as [Hpt _]. subst p. discriminate.
  - lia.
  - lia.
  - simpl in Hs. apply andb_prop in Hs as [Hpt _]. subst p. discriminate.
  - lia.
  - rewrite weight_app. pose proof (weight_le_len fs). simpl. lia.
  - lia.
  - lia.
  - lia.
  - lia.
  - match goal with E : role_of _ = _ |- _ => unfold weight1; rewrite E end. lia.
  - match goal with E : role_of _ = _ |- _ => unfold weight1; rewrite E end. lia.
  - unfold weight1. simpl. destruct h; simpl; lia.
  - discriminate.
Qed.

Lemma run_potential σ tr σ' : cstate σ -> run σ tr σ' -> attempts tr + potential σ' <= potential σ.
Proof.
  intros HC H. induction H as [σ|σ l σ1 tr σ2 Hst Hr IH]; [unfold attempts; simpl; lia|].
  destruct (step_cstate _ _ _ HC Hst) as [HC1 _].
  pose proof (step_potential _ _ _ HC Hst). pose proof (IH HC1). rewrite attempts_cons. lia.
Qed.

Lemma step_measure σ l σ' : cstate σ -> step σ l σ' -> steps_measure σ' < steps_measure σ.
Proof.
  intros [Hc HI] H. pose proof HI as (Ha & Hs & Hp).
  destruct σ as [s m c a g pl]. simpl in *. subst c a.
  inversion H; subst; clear H; unfold steps_measure, with_stk; simpl in *; subst; simpl.
  - simpl in Hs. apply andb_prop in Hs as [Hpt _]. subst p. discriminate.
  - lia.
  - lia.
  - simpl in Hs. apply andb_prop in Hs as [Hpt _]. subst p. discriminate.
  - destruct (fresh_xp t); simpl; lia.
  - rewrite app_length, filter_app_len. simpl.
    pose proof (filter_len_le fresh_xp fs).
    assert (length fs > 0) by (destruct fs; simpl; [congruence|lia]). lia.
  - simpl. lia.
  - simpl. lia.
  - simpl. lia.
  - simpl. lia.
  - destruct t as [p| |p| |h r|w p|pe]; try destruct r; try destruct w; simpl in *; try discriminate; lia.
  - destruct t as [p| |p| |h r|w p|pe]; try destruct r; try destruct w; simpl in *; try discriminate; lia.
  - destruct h; simpl; lia.
  - discriminate.
Qed.

Lemma run_length σ tr σ' : cstate σ -> run σ tr σ' -> length tr + steps_measure σ' <= steps_measure σ.
Proof.
  intros HC H. induction H as [σ|σ l σ1 tr σ2 Hst Hr IH]; [simpl; lia|].
  destruct (step_cstate _ _ _ HC Hst) as [HC1 _].
  pose proof (step_measure _ _ _ HC Hst). pose proof (IH HC1). simpl. lia.
Qed.

Lemma progress σ : cstate σ -> stk σ <> [] -> exists l σ', step σ l σ'.
Proof.
  intros [Hc HI] Hne. pose proof HI as (Ha & Hs & Hp).
  destruct (stk σ) as [|t s] eqn:Es; [congruence|].
  destruct (md σ) as [|e] eqn:Em.
  - destruct t as [p| |p| |h r|w p|pe].
    + simpl in Hs. apply andb_prop in Hs as [Hpt _]. subst p.
      eexists _, _. eapply S_poll; eauto.
    + eexists _, _. eapply S_goret; eauto.
    + eexists _, _. eapply S_recv; eauto.
    + eexists _, _. eapply S_ret; eauto.
    + eexists _, _. eapply S_ret; eauto 6.
    + eexists _, _. eapply S_ret; eauto 6.
    + simpl in Hs. apply andb_prop in Hs as [Hpt _]. subst pe.
      eexists _, _. eapply S_exit_poll; eauto.
  - destruct (role_of t) eqn:Er.
    + eexists _, _. eapply S_unwind; eauto.
    + eexists _, _. eapply S_catch; eauto.
    + destruct t as [p| |p| |h' r|w p|pe]; simpl in Er; try discriminate.
      * destruct r; try discriminate. eexists _, _. eapply S_handler; eauto.
      * destruct w; discriminate.
Qed.

(* ---------------------------------------------------------------- armed states: the exact count and the reason *)

Definition cost (σ : state) : nat :=
  match md σ with Run => cost_run (stk σ) | Raising _ => cost_raise (stk σ) end.

(* Control is in a Lua frame / a builtin, or the context's error is travelling. *)
Definition armed (σ : state) : Prop :=
  (md σ = Run /\ armed_run (stk σ) = true) \/ (md σ = Raising ECtx /\ armed_raise (stk σ) = true).

Lemma armed_raise_cons t s :
  armed_raise (t :: s) = match role_of t with
                         | Passes => armed_raise s
                         | Catches => armed_run s
                         | Handles _ => armed_run s
                         end.
Proof. reflexivity. Qed.

Lemma no_block_tail t s : no_block (t :: s) = true -> no_block s = true.
Proof. unfold no_block. simpl. intros H. apply andb_prop in H. tauto. Qed.

Lemma step_armed σ l σ' :
  cstate σ -> armed σ -> step σ l σ' ->
  armed σ' /\
  (no_block (stk σ) = true -> no_block (stk σ') = true /\ att1 l + cost σ' = cost σ).
Proof.
  intros [Hc HI] HA H. pose proof HI as (Ha & Hs & Hp).
  destruct σ as [s m c a g pl]. unfold armed, cost in *. simpl in *. subst c a.
  inversion H; subst; clear H; unfold with_stk, att1; simpl in *; subst; simpl.
  - simpl in Hs. apply andb_prop in Hs as [Hpt _]. subst p. discriminate.
  - destruct HA as [[_ HA]|[HA _]]; [|discriminate]. simpl in HA.
    split; [right; auto|]. intros Hnb. split; [exact Hnb|reflexivity].
  - destruct HA as [[_ HA]|[HA _]]; [|discriminate]. simpl in HA.
    split; [right; auto|]. intros Hnb. split; [exact Hnb|reflexivity].
  - simpl in Hs. apply andb_prop in Hs as [Hpt _]. subst p. discriminate.
  - destruct HA as [[_ HA]|[HA _]]; [|discriminate].
    match goal with Hd : _ \/ _ |- _ => destruct Hd as [->|[(h & r & ->)|(w & p & ->)]] end;
      simpl in HA; (split; [left; split; [reflexivity|exact HA]|]);
      intros Hnb; (split; [exact (no_block_tail _ _ Hnb)|reflexivity]).
  - destruct HA as [[_ HA]|[HA _]]; discriminate.
  - destruct HA as [[_ HA]|[HA _]]; discriminate.
  - destruct HA as [[_ HA]|[HA _]]; discriminate.
  - destruct HA as [[_ HA]|[HA _]]; [|discriminate]. simpl in HA. apply andb_prop in HA as [HA1 HA2].
    split; [right; split; [reflexivity|]|].
    + exact HA2.
    + unfold no_block. simpl. discriminate.
  - destruct HA as [[_ HA]|[HA _]]; [|discriminate]. simpl in HA. apply andb_prop in HA as [HA1 HA2].
    split; [left; auto|]. unfold no_block. simpl. discriminate.
  - destruct HA as [[HA _]|[HA HB]]; [discriminate|]. inversion HA; subst.
    rewrite armed_raise_cons in HB.
    match goal with E : role_of _ = _ |- _ => rewrite E in HB; rewrite E end.
    split; [right; auto|]. intros Hnb. split; [exact (no_block_tail _ _ Hnb)|reflexivity].
  - destruct HA as [[HA _]|[HA HB]]; [discriminate|]. inversion HA; subst.
    rewrite armed_raise_cons in HB.
    match goal with E : role_of _ = _ |- _ => rewrite E in HB; rewrite E end.
    split; [left; auto|]. intros Hnb. split; [exact (no_block_tail _ _ Hnb)|reflexivity].
  - destruct HA as [[HA _]|[HA HB]]; [discriminate|]. inversion HA; subst.
    destruct h; simpl; (split; [left; auto|]);
      intros Hnb; (split; [|reflexivity]); unfold no_block in *; simpl in *; exact Hnb.
  - discriminate.
Qed.

Lemma run_armed σ tr σ' : cstate σ -> armed σ -> run σ tr σ' -> armed σ'.
Proof.
  intros HC HA H. induction H as [σ|σ l σ1 tr σ2 Hst Hr IH]; [auto|].
  destruct (step_cstate _ _ _ HC Hst) as [HC1 _].
  destruct (step_armed _ _ _ HC HA Hst) as [HA1 _]. auto.
Qed.

Lemma run_armed_cost σ tr σ' :
  cstate σ -> armed σ -> no_block (stk σ) = true -> run σ tr σ' -> attempts tr + cost σ' = cost σ.
Proof.
  intros HC HA Hnb H. induction H as [σ|σ l σ1 tr σ2 Hst Hr IH]; [unfold attempts; simpl; auto|].
  destruct (step_cstate _ _ _ HC Hst) as [HC1 _].
  destruct (step_armed _ _ _ HC HA Hst) as [HA1 Hc1]. destruct (Hc1 Hnb) as [Hnb1 Hc].
  pose proof (IH HC1 HA1 Hnb1). rewrite attempts_cons. lia.
Qed.

Lemma armed_final σ : armed σ -> final σ -> md σ = Raising ECtx.
Proof.
  unfold armed, final. intros [[_ H]|[H _]] Hf; [|exact H]. rewrite Hf in H. discriminate.
Qed.

Lemma cost_final σ : final σ -> cost σ = 0.
Proof. unfold final, cost. intros ->. destruct (md σ); reflexivity. Qed.

Lemma cost_le_weight s : cost_run s <= weight s + 1 /\ cost_raise s <= weight s.
Proof.
  induction s as [|t s [IH1 IH2]]; simpl; [lia|].
  unfold weight1. destruct t as [p| |p| |h r|w p|pe]; simpl; try lia.
  - destruct r; simpl; [lia|]. destruct h; lia.
  - destruct w; simpl; lia.
Qed.

(* ---------------------------------------------------------------- the executable instance is a run *)

Lemma exec_step_sound σ go l σ' go' : exec_step σ go = inl (l, σ', go') -> step σ l σ'.
Proof.
  unfold exec_step. destruct (stk σ) as [|t s] eqn:Es; [destruct (md σ); discriminate|].
  destruct (md σ) as [|e] eqn:Em.
  - destruct t as [p| |p| |h r|w p|pe].
    + destruct (p && cancelled σ) eqn:E; [|discriminate]. intros H; inversion H; subst; clear H.
      apply andb_prop in E as [-> Hc]. rewrite <- Es. eapply S_poll; eauto.
    + destruct go as [|[fs| |] go0].
      * intros H; inversion H; subst. eapply S_goret; eauto.
      * destruct (negb (length fs =? 0) && frames_ok (cur_flag (attached σ) (TGoPlain :: s)) fs
                  && entry_ok fs && (length fs <=? gofuel σ)) eqn:E; [|discriminate].
        intros H; inversion H; subst; clear H.
        apply andb_prop in E as [E E3]. apply andb_prop in E as [E E4]. apply andb_prop in E as [E1 E2].
        rewrite <- Es. eapply S_gocall; eauto.
        -- intros ->. simpl in E1. discriminate.
        -- rewrite Es. exact E2.
        -- apply Nat.leb_le. exact E3.
      * intros H; inversion H; subst. eapply S_goret; eauto.
      * intros H; inversion H; subst. rewrite <- Es. eapply S_goraise; eauto.
    + destruct (p && cancelled σ) eqn:E; intros H; inversion H; subst; clear H.
      * apply andb_prop in E as [-> Hc]. rewrite <- Es. eapply S_unblock; eauto.
      * eapply S_recv; eauto.
    + intros H; inversion H; subst. eapply S_ret; eauto.
    + intros H; inversion H; subst. eapply S_ret; eauto 6.
    + intros H; inversion H; subst. eapply S_ret; eauto 6.
    + destruct (pe && cancelled σ) eqn:E; intros H; inversion H; subst; clear H.
      * apply andb_prop in E as [-> Hc]. rewrite <- Es. eapply S_exit_poll; eauto.
      * eapply S_exit_ret; eauto.
  - destruct t as [p| |p| |h r|w p|pe]; try destruct r; try destruct w; simpl;
      intros H; inversion H; subst; clear H;
      first [ eapply S_handler; solve [eauto]
            | eapply S_unwind; solve [eauto]
            | eapply S_catch; solve [eauto] ].
Qed.

Lemma exec_step_end σ go m : exec_step σ go = inr (EndFinal m) -> final σ /\ md σ = m.
Proof.
  unfold exec_step, final. destruct (stk σ) as [|t s] eqn:Es.
  - destruct (md σ); intros H; inversion H; auto.
  - destruct (md σ) as [|e].
    + destruct t as [p| |p| |h r|w p|pe]; try discriminate.
      * destruct (p && cancelled σ); discriminate.
      * destruct go as [|[fs| |] go0]; try discriminate.
        destruct (negb (length fs =? 0) && frames_ok (cur_flag (attached σ) (TGoPlain :: s)) fs
                  && entry_ok fs && (length fs <=? gofuel σ)); discriminate.
      * destruct (p && cancelled σ); discriminate.
      * destruct (pe && cancelled σ); discriminate.
    + destruct t as [p| |p| |h r|w p|pe]; try destruct r; try destruct w; simpl; discriminate.
Qed.

Lemma exec_sound fuel : forall σ go acc tr σ' e,
  exec fuel σ go acc = (tr, σ', e) -> exists tr', tr = rev acc ++ tr' /\ run σ tr' σ'.
Proof.
  induction fuel as [|n IH]; intros σ go acc tr σ' e H; simpl in H.
  - inversion H; subst. exists []. rewrite app_nil_r. split; [reflexivity|constructor].
  - destruct (exec_step σ go) as [[[l σ1] go1]|e1] eqn:E.
    + destruct (IH _ _ _ _ _ _ H) as (tr' & -> & Hr). exists (l :: tr'). split.
      * simpl. rewrite <- app_assoc. reflexivity.
      * econstructor; [eapply exec_step_sound; eauto|exact Hr].
    + inversion H; subst. exists []. rewrite app_nil_r. split; [reflexivity|constructor].
Qed.

Lemma exec_final fuel : forall σ go acc tr σ' m,
  exec fuel σ go acc = (tr, σ', EndFinal m) -> final σ' /\ md σ' = m.
Proof.
  induction fuel as [|n IH]; intros σ go acc tr σ' m H; simpl in H; [inversion H|].
  destruct (exec_step σ go) as [[[l σ1] go1]|e1] eqn:E; [eauto|].
  inversion H; subst. eapply exec_step_end; eauto.
Qed.

Lemma drive_sound fuel : forall σ script k n acc tr σ' e,
  drive fuel σ script k n acc = (tr, σ', e) -> exists tr', tr = rev acc ++ tr' /\ run σ tr' σ'.
Proof.
  induction fuel as [|f IH]; intros σ script k n acc tr σ' e H; cbn [drive] in H.
  - inversion H; subst. exists []. rewrite app_nil_r. split; [reflexivity|constructor].
  - assert (Hstop : forall x, (rev acc, σ, x) = (tr, σ', e) ->
                               exists tr', tr = rev acc ++ tr' /\ run σ tr' σ').
    { intros x Hx. inversion Hx; subst. exists []. rewrite app_nil_r. split; [reflexivity|constructor]. }
    destruct (exec_step σ []) as [[[l σ1] go1]|e1] eqn:E.
    + destruct (IH _ _ _ _ _ _ _ _ H) as (tr' & -> & Hr). exists (l :: tr'). split.
      * simpl. rewrite <- app_assoc. reflexivity.
      * econstructor; [eapply exec_step_sound; eauto|exact Hr].
    + destruct e1; eauto.
      destruct (Nat.eqb (S n) k && negb (cancelled σ) && attached σ) eqn:Ec.
      * destruct (IH _ _ _ _ _ _ _ _ H) as (tr' & -> & Hr). exists (LCancel :: tr'). split.
        -- simpl. rewrite <- app_assoc. reflexivity.
        -- apply andb_prop in Ec as [Ec Ea]. apply andb_prop in Ec as [_ Ec].
           apply negb_true_iff in Ec. econstructor; [|exact Hr]. unfold cancel_now. constructor; auto.
      * destruct script as [|ef sc]; eauto.
        destruct (apply_effect σ ef) as [σ1|] eqn:Ea; eauto.
        destruct (IH _ _ _ _ _ _ _ _ H) as (tr' & -> & Hr).
        exists (LInstr (top_flag σ) ef :: tr'). split.
        -- simpl. rewrite <- app_assoc. reflexivity.
        -- econstructor; [|exact Hr].
           (* exec_step said EndNeedsEffect: a Lua frame is on top, mode Run, not (p && cancelled) *)
           unfold exec_step in E. unfold top_flag.
           destruct (stk σ) as [|t s] eqn:Es; [destruct (md σ); discriminate|].
           destruct (md σ) as [|er] eqn:Em.
           ++ destruct t as [p| |p| |h r|w p|pe]; try discriminate.
              ** destruct (p && cancelled σ) eqn:Epc; [discriminate|]. eapply S_instr; eauto.
              ** destruct (p && cancelled σ); discriminate.
              ** destruct (pe && cancelled σ); discriminate.
           ++ destruct t as [p| |p| |h r|w p|pe]; try destruct r; try destruct w; simpl in E; discriminate.
Qed.

(* ---------------------------------------------------------------- transparency *)

Lemma erase_role t : role_of (erase_tag t) = role_of t.
Proof. destruct t as [p| |p| |h r|w p|pe]; try destruct w; reflexivity. Qed.

Lemma cur_flag_erase s : cur_flag false (map erase_tag s) = false.
Proof. induction s as [|t s IH]; simpl; [reflexivity|]. destruct t; simpl; auto. Qed.

Lemma frame_ok_erase f t : frame_ok f t = true -> frame_ok false (erase_tag t) = true.
Proof. destruct t as [p| |p| |h r|w p|pe]; simpl; auto. Qed.

Lemma frames_ok_erase f fs : frames_ok f fs = true -> frames_ok false (map erase_tag fs) = true.
Proof.
  induction fs as [|t fs IH]; simpl; intros H; [reflexivity|].
  apply andb_prop in H as [H1 H2]. rewrite (frame_ok_erase _ _ H1), (IH H2). reflexivity.
Qed.

Lemma remove_nth_map {A B} (f : A -> B) i l : remove_nth i (map f l) = map f (remove_nth i l).
Proof. revert i. induction l as [|x l IH]; intros [|i]; simpl; try reflexivity. rewrite IH. reflexivity. Qed.

Lemma split_co_erase s :
  split_co (map erase_tag s) =
  match split_co s with
  | Some (a, b, r) => Some (map erase_tag a, erase_tag b, map erase_tag r)
  | None => None
  end.
Proof.
  induction s as [|t s IH]; simpl; [reflexivity|].
  destruct t as [p| |p| |h r|w p|pe]; simpl; try reflexivity;
    rewrite IH; destruct (split_co s) as [[[a b] r']|]; reflexivity.
Qed.

Lemma apply_effect_erase σ e σ' :
  apply_effect σ e = Some σ' -> apply_effect (erase σ) (erase_effect e) = Some (erase σ').
Proof.
  destruct σ as [s m c a g pl]. unfold apply_effect, erase; cbn [stk md cancelled attached gofuel pool].
  destruct s as [|top below]; [discriminate|].
  rewrite cur_flag_erase.
  remember (cur_flag a (top :: below)) as f0 eqn:Ef0. clear Ef0.
  remember (top :: below) as s eqn:Es.
  assert (Hm : map erase_tag s = erase_tag top :: map erase_tag below) by (subst s; reflexivity).
  rewrite Hm.
  destruct e; cbn [erase_effect]; intros H.
  - inversion H; subst. cbn. reflexivity.
  - destruct (frames_ok f0 fs) eqn:Ef; [|discriminate].
    inversion H; subst; clear H. rewrite (frames_ok_erase _ _ Ef). cbn. rewrite map_app. reflexivity.
  - inversion H; subst. reflexivity.
  - destruct (frames_ok f0 fs) eqn:Ef; [|discriminate].
    inversion H; subst; clear H. rewrite (frames_ok_erase _ _ Ef). cbn. rewrite map_app. reflexivity.
  - inversion H; subst. cbn. reflexivity.
  - inversion H; subst. cbn. reflexivity.
  - rewrite nth_error_map. destruct (nth_error pl i) as [[tf fr]|] eqn:En; [|discriminate].
    inversion H; subst; clear H. cbn. rewrite map_app, remove_nth_map. reflexivity.
  - rewrite <- Hm. rewrite split_co_erase.
    destruct (split_co s) as [[[above b] rest]|]; [|discriminate].
    destruct b; try discriminate. inversion H; subst; clear H. reflexivity.
Qed.

Lemma erase_with_stk σ s m : erase (with_stk σ s m) = with_stk (erase σ) (map erase_tag s) m.
Proof. reflexivity. Qed.

Lemma handler_frame_erase h f : erase_tag (handler_frame h f) = handler_frame h false.
Proof. destruct h; reflexivity. Qed.

Lemma last_map {A B} (f : A -> B) l d : last (map f l) (f d) = f (last l d).
Proof. induction l as [|x l IH]; simpl; [reflexivity|]. destruct l; simpl in *; auto. Qed.

Lemma entry_ok_erase fs : entry_ok (map erase_tag fs) = entry_ok fs.
Proof.
  unfold entry_ok. change TGoPlain with (erase_tag TGoPlain) at 1. rewrite last_map.
  destruct (last fs TGoPlain) as [p| |p| |h r|w p|pe]; reflexivity.
Qed.

(* Every step taken with a context that is not done is a step of the context-free machine. *)
Lemma transparent_fwd σ l σ' :
  cancelled σ = false -> l <> LCancel -> step σ l σ' ->
  step (erase σ) (erase_label l) (erase σ').
Proof.
  intros Hc Hl H. inversion H; subst; clear H; try rewrite erase_with_stk.
  - simpl. eapply S_instr with (s := map erase_tag s); simpl.
    + rewrite H0. reflexivity.
    + assumption.
    + reflexivity.
    + apply apply_effect_erase. assumption.
  - congruence.
  - congruence.
  - eapply S_exit_ret with (p := false); simpl; eauto. rewrite H0. reflexivity.
  - eapply S_ret with (t := erase_tag t); simpl.
    + rewrite H0. reflexivity.
    + assumption.
    + destruct H2 as [->|[(h & r & ->)|(w & p & ->)]]; simpl; eauto 6.
  - match goal with |- step _ _ ?X =>
      replace X with (mk (map erase_tag fs ++ stk (erase σ)) Run (cancelled (erase σ)) (attached (erase σ))
               (gofuel (erase σ) - length (map erase_tag fs)) (pool (erase σ)))
        by (unfold erase; cbn; rewrite map_app, map_length; reflexivity)
    end.
    cbn [erase_label].
    eapply S_gocall with (s := map erase_tag s); simpl.
    + rewrite H0. reflexivity.
    + assumption.
    + destruct fs; simpl; congruence.
    + rewrite cur_flag_erase. eapply frames_ok_erase; eauto.
    + rewrite entry_ok_erase. assumption.
    + rewrite map_length. assumption.
  - eapply S_goret; simpl; eauto. rewrite H0. reflexivity.
  - simpl. eapply S_goraise with (s := map erase_tag s); simpl; eauto. rewrite H0. reflexivity.
  - congruence.
  - eapply S_recv with (p := false); simpl; eauto. rewrite H0. reflexivity.
  - eapply S_unwind with (t := erase_tag t); simpl; eauto.
    + rewrite H0. reflexivity.
    + rewrite erase_role. assumption.
  - eapply S_catch with (t := erase_tag t); simpl; eauto.
    + rewrite H0. reflexivity.
    + rewrite erase_role. assumption.
  - simpl map. rewrite handler_frame_erase.
    replace false with (cur_flag (attached (erase σ)) (map erase_tag s)) at 1
      by (simpl; apply cur_flag_erase).
    eapply S_handler; simpl; eauto. rewrite H0. reflexivity.
  - congruence.
Qed.

(* Conversely: every step of the context-free machine is the image of a step with the context. *)
Definition reflag (f : bool) (t : tag) : tag :=
  match t with TLua _ => TLua f | TGoBlock _ => TGoBlock f | TEntry _ => TEntry f | t => t end.

Definition lift_effect (f : bool) (e : effect) : effect :=
  match e with
  | ECall fs g => ECall (map (reflag f) fs) g
  | ETail fs g => ETail (map (reflag f) fs) g
  | e => e
  end.

Lemma reflag_ok f fs :
  frames_ok false fs = true ->
  frames_ok f (map (reflag f) fs) = true /\ map erase_tag (map (reflag f) fs) = fs.
Proof.
  induction fs as [|t fs IH]; simpl; intros H; [auto|].
  apply andb_prop in H as [H1 H2]. destruct (IH H2) as [I1 I2]. rewrite I1, I2.
  destruct t as [p| |p| |h r|w p|pe]; simpl in *; try discriminate;
    try (destruct p; simpl in H1; try discriminate); try (destruct pe; simpl in H1; try discriminate);
    try destruct r; try discriminate;
    rewrite ?eqb_reflx; auto.
Qed.

Lemma apply_effect_unerase σ e0 τ :
  apply_effect (erase σ) e0 = Some τ ->
  exists e σ', apply_effect σ e = Some σ' /\ erase_effect e = e0 /\ erase σ' = τ.
Proof.
  intros H.
  assert (K : forall e, erase_effect e = e0 -> (exists σ', apply_effect σ e = Some σ') ->
                        exists e σ', apply_effect σ e = Some σ' /\ erase_effect e = e0 /\ erase σ' = τ).
  { intros e He [σ' Hs]. exists e, σ'. split; [exact Hs|]. split; [exact He|].
    pose proof (apply_effect_erase _ _ _ Hs) as Hx. rewrite He, H in Hx. inversion Hx. reflexivity. }
  destruct σ as [s m c a g pl]. unfold apply_effect, erase in H; cbn [stk md cancelled attached gofuel pool] in H.
  destruct s as [|top below]; [discriminate|].
  rewrite cur_flag_erase in H.
  remember (top :: below) as s eqn:Es.
  assert (Hm : map erase_tag s = erase_tag top :: map erase_tag below) by (subst s; reflexivity).
  rewrite Hm in H.
  set (f := cur_flag a s).
  destruct e0.
  - apply (K ENop); [reflexivity|]. unfold apply_effect; cbn. rewrite Es. eauto.
  - destruct (frames_ok false fs) eqn:Ef; [|discriminate].
    destruct (reflag_ok f _ Ef) as [R1 R2].
    apply (K (ECall (map (reflag f) fs) g0)); [cbn; rewrite R2; reflexivity|].
    unfold apply_effect; cbn. rewrite Es. rewrite <- Es. fold f. rewrite R1. eauto.
  - apply (K ERet); [reflexivity|]. unfold apply_effect; cbn. rewrite Es. eauto.
  - destruct (frames_ok false fs) eqn:Ef; [|discriminate].
    destruct (reflag_ok f _ Ef) as [R1 R2].
    apply (K (ETail (map (reflag f) fs) g0)); [cbn; rewrite R2; reflexivity|].
    unfold apply_effect; cbn. rewrite Es. rewrite <- Es. fold f. rewrite R1. eauto.
  - apply (K EError); [reflexivity|]. unfold apply_effect; cbn. rewrite Es. eauto.
  - apply (K ECreate); [reflexivity|]. unfold apply_effect; cbn. rewrite Es. eauto.
  - apply (K (EResume i w)); [reflexivity|]. unfold apply_effect; cbn. rewrite Es.
    rewrite nth_error_map in H. destruct (nth_error pl i) as [[tf fr]|]; [eauto|discriminate].
  - apply (K EYield); [reflexivity|]. unfold apply_effect; cbn. rewrite Es. rewrite <- Es.
    rewrite <- Hm, split_co_erase in H.
    destruct (split_co s) as [[[above b] rest]|]; [|discriminate].
    destruct b; try discriminate. eauto.
Qed.

Lemma entry_ok_reflag f fs : entry_ok (map (reflag f) fs) = entry_ok fs.
Proof.
  unfold entry_ok. change TGoPlain with (reflag f TGoPlain) at 1. rewrite last_map.
  destruct (last fs TGoPlain) as [p| |p| |h r|w p|pe]; reflexivity.
Qed.

Lemma transparent_bwd σ l0 τ :
  cancelled σ = false -> step (erase σ) l0 τ ->
  exists l σ', step σ l σ' /\ l <> LCancel /\ erase_label l = l0 /\ erase σ' = τ.
Proof.
  intros Hc H.
  inversion H; subst; clear H;
    try (match goal with E : stk (erase _) = _ |- _ => cbn in E end);
    try (match goal with E : md (erase _) = _ |- _ => cbn in E end);
    try (match goal with E : cancelled (erase _) = true |- _ => cbn in E; discriminate end);
    try (match goal with E : attached (erase _) = true |- _ => cbn in E; discriminate end);
    destruct (stk σ) as [|t0 s0] eqn:Es; try discriminate;
    match goal with E : map erase_tag (_ :: _) = _ |- _ => cbn in E; inversion E; subst; clear E end.
  - (* instr *)
    destruct t0 as [q| |q| |h r|w q|qe]; try discriminate.
    match goal with E : erase_tag _ = _ |- _ => inversion E; subst; clear E end.
    destruct (apply_effect_unerase _ _ _ H3) as (e1 & σ1 & Ha & He & Hs).
    exists (LInstr q e1), σ1. repeat split; try congruence.
    + eapply S_instr; eauto. rewrite Hc. apply andb_false_r.
    + cbn. rewrite He. reflexivity.
  - (* exit poll that does not fire *)
    destruct t0 as [q| |q| |h r|w q|qe]; try discriminate.
    exists (LExitPoll false), (with_stk σ s0 Run). repeat split; try congruence.
    eapply S_exit_ret; eauto. rewrite Hc. apply andb_false_r.
  - (* ret *)
    exists LRet, (with_stk σ s0 Run). repeat split; try congruence.
    eapply S_ret; eauto.
    destruct H2 as [Ht|[(h & r & Ht)|(w & p & Ht)]];
      destruct t0 as [q| |q| |h' r'|w' q|qe]; inversion Ht; subst; eauto 6.
  - (* gocall *)
    destruct t0 as [q| |q| |h r|w q|qe]; try discriminate.
    set (f := cur_flag (attached σ) (stk σ)).
    change (cur_flag (attached (erase σ)) (stk (erase σ))) with (cur_flag false (map erase_tag (stk σ))) in H3.
    rewrite cur_flag_erase in H3.
    repeat match goal with Hx : _ <= gofuel (erase _) |- _ => cbn in Hx end.
    destruct (reflag_ok f _ H3) as [R1 R2].
    exists (LGoCall (map (reflag f) fs)),
           (mk (map (reflag f) fs ++ stk σ) Run (cancelled σ) (attached σ)
               (gofuel σ - length (map (reflag f) fs)) (pool σ)).
    repeat split; try congruence.
    + eapply S_gocall; eauto.
      * destruct fs; simpl; congruence.
      * rewrite entry_ok_reflag. assumption.
      * rewrite map_length. assumption.
    + cbn. rewrite R2. reflexivity.
    + unfold erase; cbn. rewrite Es. rewrite map_app, R2, !map_length. reflexivity.
  - destruct t0 as [q| |q| |h r|w q|qe]; try discriminate.
    exists LGoRet, (with_stk σ s0 Run). repeat split; try congruence. eapply S_goret; eauto.
  - destruct t0 as [q| |q| |h r|w q|qe]; try discriminate.
    exists LGoRaise, (with_stk σ (stk σ) (Raising EOther)). repeat split; try congruence;
      try (eapply S_goraise; solve [eauto]);
      try (unfold erase, with_stk; cbn; rewrite Es; reflexivity).
  - destruct t0 as [q| |q| |h r|w q|qe]; try discriminate.
    exists LRecv, (with_stk σ s0 Run). repeat split; try congruence. eapply S_recv; eauto.
  - exists LUnwind, (with_stk σ s0 (Raising e)). repeat split; try congruence.
    eapply S_unwind; eauto. rewrite <- erase_role. assumption.
  - exists LCatch, (with_stk σ s0 Run). repeat split; try congruence.
    eapply S_catch; eauto. rewrite <- erase_role. assumption.
  - destruct t0 as [q| |q| |h' r|w q|qe]; try discriminate.
    match goal with E : erase_tag _ = _ |- _ => inversion E; subst; clear E end.
    exists LHandler, (with_stk σ (handler_frame h (cur_flag (attached σ) s0) :: TGoXpcall h true :: s0) Run).
    repeat split; try congruence;
      try (eapply S_handler; solve [eauto]);
      try (unfold erase, with_stk; cbn; rewrite handler_frame_erase, cur_flag_erase; reflexivity).
Qed.

(* ---------------------------------------------------------------- contexts of threads *)

Lemma child_done_when_parent_done marks c fresh :
  ctx_done marks c = true -> ctx_done marks (fresh :: c) = true.
Proof. unfold ctx_done. simpl. intros ->. apply orb_true_r. Qed.

Lemma descends_new_thread r creator fresh :
  descends r creator -> descends r (new_thread_ctx creator fresh).
Proof. destruct creator as [c|]; simpl; auto. Qed.

Lemma new_thread_has_ctx_iff creator fresh :
  (new_thread_ctx creator fresh <> None) <-> (creator <> None).
Proof. destruct creator; simpl; split; congruence. Qed.

Lemma descendant_done marks r c :
  descends r (Some c) -> marked marks r = true -> ctx_done marks c = true.
Proof.
  unfold ctx_done. simpl. intros Hin Hm. apply existsb_exists. exists r. auto.
Qed.

Lemma marked_cons i j marks : marked (j :: marks) i = (Nat.eqb i j || marked marks i).
Proof. reflexivity. Qed.

(* Killing a thread (LState.kill calls the child's cancel func) marks only that thread's own id. *)
Lemma kill_is_local marks id c : ~ In id c -> ctx_done (id :: marks) c = ctx_done marks c.
Proof.
  unfold ctx_done. induction c as [|i c IH]; cbn [existsb]; intros Hn; [reflexivity|].
  simpl in Hn. rewrite IH by tauto. rewrite marked_cons.
  destruct (Nat.eqb i id) eqn:E; [apply Nat.eqb_eq in E; subst; tauto|reflexivity].
Qed.

(* ---------------------------------------------------------------- headline statements *)

Lemma no_instruction_after_cancel_lemma :
  forall tr1 σ1 tr2 σ2,
    run init_attached tr1 σ1 -> cancelled σ1 = true -> run σ1 tr2 σ2 -> instrs tr2 = 0.
Proof.
  intros tr1 σ1 tr2 σ2 H1 Hc H2.
  assert (HC : cstate σ1) by (split; [exact Hc|eapply run_inv; eauto using init_inv]).
  exact (proj2 (run_cstate _ _ _ HC H2)).
Qed.

Lemma no_instruction_from_cstate_lemma :
  forall σ tr σ', cstate σ -> run σ tr σ' -> instrs tr = 0.
Proof. intros σ tr σ' HC H. exact (proj2 (run_cstate _ _ _ HC H)). Qed.

Lemma stops_within_depth_lemma :
  forall σ, cstate σ -> md σ = Run ->
    (forall tr σ', run σ tr σ' ->
        attempts tr <= weight (stk σ) + 1 + 2 * gofuel σ /\ length tr <= steps_measure σ) /\
    (weight (stk σ) + 1 <= 2 * protected_depth (stk σ) + 1 /\
     2 * protected_depth (stk σ) + 1 <= 2 * depth (stk σ) + 1) /\
    (forall tr σ', run σ tr σ' -> ~ final σ' -> exists l σ'', step σ' l σ'').
Proof.
  intros σ HC Hm. split; [|split].
  - intros tr σ' Hr. pose proof (run_potential _ _ _ HC Hr) as Hp.
    pose proof (run_length _ _ _ HC Hr) as Hl.
    unfold potential in Hp at 2. rewrite Hm in Hp. simpl in Hp. lia.
  - pose proof (weight_le_protected (stk σ)). pose proof (protected_le_depth (stk σ)). lia.
  - intros tr σ' Hr Hnf. destruct (run_cstate _ _ _ HC Hr) as [HC' _]. apply progress; auto.
Qed.

Lemma stops_within_depth_plain_lemma :
  forall σ tr σ', cstate σ -> md σ = Run -> gofuel σ = 0 -> run σ tr σ' ->
    attempts tr <= 2 * protected_depth (stk σ) + 1 /\ attempts tr <= 2 * depth (stk σ) + 1.
Proof.
  intros σ tr σ' HC Hm Hg Hr.
  destruct (stops_within_depth_lemma σ HC Hm) as (H1 & H2 & _).
  destruct (H1 _ _ Hr) as [Ha _]. lia.
Qed.

Lemma stops_exactly_lemma :
  forall σ tr σ', cstate σ -> md σ = Run -> armed_run (stk σ) = true -> no_block (stk σ) = true ->
    run σ tr σ' -> final σ' ->
    attempts tr = cost_run (stk σ) /\ md σ' = Raising ECtx.
Proof.
  intros σ tr σ' HC Hm Ha Hnb Hr Hf.
  assert (HA : armed σ) by (left; auto).
  pose proof (run_armed _ _ _ HC HA Hr) as HA'.
  pose proof (run_armed_cost _ _ _ HC HA Hnb Hr) as Hc.
  rewrite (cost_final _ Hf) in Hc. unfold cost in Hc at 1. rewrite Hm in Hc.
  split; [lia|]. apply armed_final; auto.
Qed.

Lemma reason_carried_lemma :
  forall σ tr σ', cstate σ -> md σ = Run -> armed_run (stk σ) = true -> run σ tr σ' ->
    (forall e, md σ' = Raising e -> e = ECtx) /\ (final σ' -> md σ' = Raising ECtx).
Proof.
  intros σ tr σ' HC Hm Ha Hr.
  assert (HA : armed σ) by (left; auto).
  pose proof (run_armed _ _ _ HC HA Hr) as HA'. split.
  - intros e He. destruct HA' as [[H _]|[H _]]; congruence.
  - apply armed_final; auto.
Qed.

Lemma ctx_transparent_lemma :
  forall σ, cancelled σ = false ->
    (forall l σ', l <> LCancel -> step σ l σ' -> step (erase σ) (erase_label l) (erase σ')) /\
    (forall l0 τ, step (erase σ) l0 τ ->
        exists l σ', step σ l σ' /\ l <> LCancel /\ erase_label l = l0 /\ erase σ' = τ).
Proof.
  intros σ Hc. split.
  - intros l σ' Hl H. apply transparent_fwd; auto.
  - intros l0 τ H. apply transparent_bwd; auto.
Qed.

Lemma apply_effect_cancelled σ e σ' : apply_effect σ e = Some σ' -> cancelled σ' = cancelled σ.
Proof.
  destruct σ as [s0 m0 c0 a0 g0 pl0]. unfold apply_effect; cbn [stk md cancelled attached gofuel pool].
  destruct s0 as [|top below]; [discriminate|].
  remember (cur_flag a0 (top :: below)) as f0. remember (top :: below) as s1.
  destruct e; intros H.
  - inversion H; reflexivity.
  - destruct (frames_ok f0 fs); inversion H; reflexivity.
  - inversion H; reflexivity.
  - destruct (frames_ok f0 fs); inversion H; reflexivity.
  - inversion H; reflexivity.
  - inversion H; reflexivity.
  - destruct (nth_error pl0 i) as [[tf fr]|]; inversion H; reflexivity.
  - destruct (split_co s1) as [[[above b] rest]|]; [|discriminate].
    destruct b; inversion H; reflexivity.
Qed.

Lemma step_cancelled_mono σ l σ' : step σ l σ' -> cancelled σ = true -> cancelled σ' = true.
Proof.
  intros H Hc. inversion H; subst; unfold with_stk; simpl; auto.
  erewrite apply_effect_cancelled; eauto.
Qed.

Lemma run_cancelled_mono σ tr σ' : run σ tr σ' -> cancelled σ = true -> cancelled σ' = true.
Proof. intros H. induction H; eauto using step_cancelled_mono. Qed.

(* Runs: a whole run in which the context never becomes done is a run of the context-free machine. *)
Lemma ctx_transparent_run_lemma :
  forall σ tr σ', run σ tr σ' -> cancelled σ' = false ->
    run (erase σ) (map erase_label tr) (erase σ').
Proof.
  intros σ tr σ' H. induction H as [σ|σ l σ1 tr σ2 Hst Hr IH]; intros Hc; [constructor|].
  assert (Hc1 : cancelled σ1 = false).
  { destruct (cancelled σ1) eqn:E; [|reflexivity].
    rewrite (run_cancelled_mono _ _ _ Hr E) in Hc. discriminate. }
  assert (Hc0 : cancelled σ = false).
  { destruct (cancelled σ) eqn:E; [|reflexivity].
    rewrite (step_cancelled_mono _ _ _ Hst E) in Hc1. discriminate. }
  assert (Hl : l <> LCancel).
  { intros ->. inversion Hst; subst. simpl in Hc1. discriminate. }
  simpl. econstructor; [apply transparent_fwd; eauto|auto].
Qed.

Lemma threads_inherit_lemma :
  forall tr σ, run init_attached tr σ ->
    polls_all (stk σ) = true /\
    (forall tf fr, In (tf, fr) (pool σ) -> tf = true /\ polls_all fr = true).
Proof.
  intros tr σ H. destruct (run_inv _ _ _ init_inv H) as (_ & Hs & Hp). split; [exact Hs|].
  intros tf fr Hin. unfold pool_ok in Hp. rewrite forallb_forall in Hp.
  specialize (Hp _ Hin). unfold thread_ok in Hp; simpl in Hp. apply andb_prop in Hp. exact Hp.
Qed.

Lemma threads_inherit_ctx_lemma :
  forall marks r creator fresh c,
    descends r creator -> new_thread_ctx creator fresh = Some c ->
    descends r (Some c) /\ (marked marks r = true -> ctx_done marks c = true) /\
    (forall id, ~ In id c -> ctx_done (id :: marks) c = ctx_done marks c).
Proof.
  intros marks r creator fresh c Hd Hn.
  assert (Hdc : descends r (Some c)) by (rewrite <- Hn; apply descends_new_thread; exact Hd).
  split; [exact Hdc|]. split.
  - intros Hm. eapply descendant_done; eauto.
  - intros id Hid. apply kill_is_local; auto.
Qed.

Lemma blocked_operation_released_lemma :
  forall σ p s, cstate σ -> md σ = Run -> stk σ = TGoBlock p :: s ->
    step σ LUnblock (with_stk σ (stk σ) (Raising ECtx)) /\
    cstate (with_stk σ (stk σ) (Raising ECtx)).
Proof.
  intros σ p s HC Hm Hs. pose proof HC as [Hc (Ha & Hp & Hpl)].
  rewrite Hs in Hp. simpl in Hp. apply andb_prop in Hp as [Hpp Hps]. subst p.
  assert (Hst : step σ LUnblock (with_stk σ (stk σ) (Raising ECtx))) by (eapply S_unblock; eauto).
  split; [exact Hst|]. exact (proj1 (step_cstate _ _ _ HC Hst)).
Qed.

(* ---------------------------------------------------------------- where the statement stops being true *)

Definition run_of_exec (s : list tag) (g : nat) (go : list gochoice) :=
  exec (4 * length s + 12 * g + 8) (fired s g) go [].

Lemma cstate_fired s g : polls_all s = true -> cstate (fired s g).
Proof. intros H. unfold cstate, Inv, fired; simpl. auto. Qed.

(* A Go library function iterating over an error-catching callback (the former finding C11-2, fixed by
   the poll after a Go function entered from Go code): the callback pcall is entered through TEntry,
   whose poll raises again, so the library loop is left after its first iteration. *)
Lemma go_library_loop_stops_lemma :
  let s := [TLua true; TGoPcall; TEntry true; TGoPlain; TLua true] in
  forall go, exists tr σ' e,
    run_of_exec s 20 go = (tr, σ', e) /\ attempts tr = 2 /\ e = EndFinal (Raising ECtx).
Proof.
  intros s go. unfold run_of_exec. eexists _, _, _. split; [|split].
  - vm_compute. reflexivity.
  - reflexivity.
  - reflexivity.
Qed.

(* The host calls pcall directly: the cancellation error is turned into results, no error is left. *)
Lemma reason_not_carried_refuted_lemma :
  exists σ tr σ', cstate σ /\ md σ = Run /\ run σ tr σ' /\ final σ' /\ md σ' = Run.
Proof.
  set (s := [TLua true; TGoPcall]).
  destruct (run_of_exec s 0 []) as [[tr σ'] e] eqn:E.
  destruct (exec_sound _ _ _ _ _ _ _ E) as (tr' & Htr & Hr). simpl in Htr. subst tr'.
  exists (fired s 0), tr, σ'. split; [apply cstate_fired; reflexivity|]. split; [reflexivity|].
  split; [exact Hr|]. vm_compute in E. inversion E; subst. split; reflexivity.
Qed.

(* A coroutine created before SetContext has no context: it is never stopped. *)
Lemma thread_without_context_not_stopped_lemma :
  forall n, exists tr σ',
    run (mk [TLua false; TCo false false; TLua true] Run true true 0 []) tr σ' /\ instrs tr = n.
Proof.
  induction n as [|n (tr & σ' & Hr & Hi)].
  - eexists [], _. split; [constructor|reflexivity].
  - exists (LInstr false ENop :: tr), σ'. split.
    + econstructor; [|exact Hr]. eapply S_instr; simpl; eauto.
    + unfold instrs in *. simpl. rewrite Hi. reflexivity.
Qed.
