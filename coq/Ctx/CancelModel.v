(* C11 — the abstract cancellation machine (definitions only; proofs are in CancelFacts.v).

   What is abstracted.  A gopher-lua state with an attached context runs `mainLoopWithContext`
   (vm.go): before EVERY instruction it selects on `L.ctx.Done()`; if the channel is closed it calls
   `L.RaiseError(L.ctx.Err().Error())`, otherwise it executes the instruction.  An error is a Go panic
   that unwinds to the nearest `recover`: `LState.PCall` (used by the builtins `pcall`/`xpcall` and by
   the host's DoString/PCall) or `threadRun` (a coroutine boundary).  `pcall` turns it into the
   results `false, msg`; `xpcall` first CALLS its handler on top of the failed frames (the handler is a
   Lua function run by the same polling loop, or a Go function), and an error inside the handler is
   caught by a second `recover` of the same `PCall`; `coroutine.resume` turns it into `false, msg` in
   the parent and kills the thread; a `coroutine.wrap` function re-raises it in the parent.
   Coroutines run NESTED on the Go stack (`coResume` calls `threadRun`), so the chain
   running-thread -> resumer -> ... -> main thread is one stack of frames.  `NewThread` gives a new
   thread a child (`context.WithCancel`) of the creator's context and the polling loop iff the creator
   has a context.  `channelReceive`/`channelSelect`/`channelSend` select on `L.ctx.Done()` when the
   thread has a context and then raise the context's error themselves.

   The machine keeps of all this only the stack of frame tags (top first), whether an error is being
   unwound, the `cancelled` bit, and a pool of suspended coroutines.  Everything a script can do is an
   `effect` chosen by an oracle; everything a Go library function can do when control returns to it
   (call again, return, raise) is a choice too, limited by `gofuel` (Go library functions iterate
   finitely often; a Lua instruction may reset the budget, nothing else can). *)
From Coq Require Import List Bool Arith.
Import ListNotations.

Inductive hkind := HLua | HGo.

Inductive tag :=
| TLua (p : bool)                       (* Lua function; p: its thread runs the polling loop *)
| TGoPlain                              (* Go function that does not catch errors (sort, gsub, host functions ...) *)
| TGoBlock (p : bool)                   (* Go function waiting in channel receive/select/send; p: selects on Done *)
| TGoPcall                              (* the builtin pcall, waiting for its callee *)
| TGoXpcall (h : hkind) (running : bool)(* the builtin xpcall; running: its handler is being run *)
| TCo (wrapped : bool) (p : bool)       (* coroutine.resume / a wrap function in the parent; frames above
                                           belong to the coroutine; p: that thread has a (child) context *)
| TEntry (p : bool).                    (* a dispatch loop that ends with a Go function instead of an
                                           instruction: the Go function above was entered from Go code
                                           (host call, library callback, Go handler of xpcall) or tail-called
                                           as the last action of the loop; when it returns normally the loop
                                           polls once more (pollContextAfterGFunction); p: the thread polls *)

Inductive err := ECtx | EOther.         (* the context's Err() text / any other error value *)
Inductive mode := Run | Raising (e : err).

Definition thread := (bool * list tag)%type.   (* has-context flag, saved frames (top first) *)

Record state := mk {
  stk : list tag;          (* frames of the running chain of threads, top first *)
  md : mode;
  cancelled : bool;        (* the attached context is done *)
  attached : bool;         (* the main thread has a context (SetContext was called) *)
  gofuel : nat;            (* frames Go library code may still push without an intervening Lua instruction *)
  pool : list thread       (* suspended / not yet started coroutines *)
}.

(* What a frame does with an error passing through it. *)
Inductive role := Passes | Catches | Handles (h : hkind).

Definition role_of (t : tag) : role :=
  match t with
  | TLua _ | TGoPlain | TGoBlock _ | TCo true _ | TEntry _ => Passes
  | TGoPcall | TCo false _ | TGoXpcall _ true => Catches
  | TGoXpcall h false => Handles h
  end.

(* The context flag of the thread whose frames are on top of [s]. *)
Fixpoint cur_flag (att : bool) (s : list tag) : bool :=
  match s with
  | [] => att
  | TCo _ p :: _ => p
  | _ :: s' => cur_flag att s'
  end.

(* Frames a call can push on a thread with flag [f]: new Lua frames poll iff the thread does;
   coroutine boundaries are pushed by resume only; a fresh xpcall is not running its handler. *)
Definition frame_ok (f : bool) (t : tag) : bool :=
  match t with
  | TLua p | TGoBlock p | TEntry p => Bool.eqb p f
  | TGoPlain | TGoPcall | TGoXpcall _ false => true
  | TGoXpcall _ true | TCo _ _ => false
  end.

Definition frames_ok (f : bool) (fs : list tag) : bool := forallb (frame_ok f) fs.

(* What Go code can call: a Lua function (its loop polls) or a Go function through an entry. *)
Definition entry_ok (fs : list tag) : bool :=
  match last fs TGoPlain with TLua _ | TEntry _ => true | _ => false end.

Definition is_co (t : tag) : bool := match t with TCo _ _ => true | _ => false end.

(* Split at the nearest coroutine boundary: frames of the running coroutine, the boundary, the rest. *)
Fixpoint split_co (s : list tag) : option (list tag * tag * list tag) :=
  match s with
  | [] => None
  | TCo w p :: r => Some ([], TCo w p, r)
  | t :: s' => match split_co s' with
               | Some (a, b, r) => Some (t :: a, b, r)
               | None => None
               end
  end.

Fixpoint remove_nth {A} (i : nat) (l : list A) : list A :=
  match i, l with
  | _, [] => []
  | O, _ :: l' => l'
  | S i', x :: l' => x :: remove_nth i' l'
  end.

(* Instruction effects: what one completed Lua instruction can do to the frame structure. *)
Inductive effect :=
| ENop                                  (* arithmetic, moves, jumps, loops ... *)
| ECall (fs : list tag) (g : nat)       (* CALL: push the callee (and the builtins between), e.g.
                                           [TLua p], [TGoPlain], [TLua p; TGoPcall] for pcall(f);
                                           g: iteration budget of the Go code started by it *)
| ERet                                  (* RETURN *)
| ETail (fs : list tag) (g : nat)       (* TAILCALL: replace the frame *)
| EError                                (* error(...) or a runtime error *)
| ECreate                               (* coroutine.create / coroutine.wrap *)
| EResume (i : nat) (w : bool)          (* resume coroutine i of the pool (w: through a wrap function) *)
| EYield.                               (* coroutine.yield *)

(* [apply_effect σ e]: σ has a Lua frame on top and is in mode Run. *)
Definition apply_effect (σ : state) (e : effect) : option state :=
  match stk σ with
  | [] => None
  | top :: below =>
    let f := cur_flag (attached σ) (stk σ) in
    match e with
    | ENop => Some σ
    | ECall fs g =>
        if frames_ok f fs then Some (mk (fs ++ stk σ) Run (cancelled σ) (attached σ) g (pool σ)) else None
    | ERet => Some (mk below Run (cancelled σ) (attached σ) (gofuel σ) (pool σ))
    | ETail fs g =>
        if frames_ok f fs then Some (mk (fs ++ below) Run (cancelled σ) (attached σ) g (pool σ)) else None
    | EError => Some (mk (stk σ) (Raising EOther) (cancelled σ) (attached σ) (gofuel σ) (pool σ))
    | ECreate => Some (mk (stk σ) Run (cancelled σ) (attached σ) (gofuel σ) ((f, [TLua f]) :: pool σ))
    | EResume i w =>
        match nth_error (pool σ) i with
        | Some (tf, fr) =>
            Some (mk (fr ++ TCo w tf :: stk σ) Run (cancelled σ) (attached σ) (gofuel σ) (remove_nth i (pool σ)))
        | None => None
        end
    | EYield =>
        match split_co (stk σ) with
        | Some (above, TCo _ tf, rest) =>
            Some (mk rest Run (cancelled σ) (attached σ) (gofuel σ) ((tf, above) :: pool σ))
        | _ => None
        end
    end
  end.

(* The frame that runs xpcall's handler. *)
(* A Go handler (debug.traceback ...) is entered through ls.Call: what remains of it for the machine
   is the poll after it returned (it is assumed not to call back into Lua). *)
Definition handler_frame (h : hkind) (f : bool) : tag :=
  match h with HLua => TLua f | HGo => TEntry f end.

Inductive label :=
| LInstr (polled : bool) (e : effect)   (* a Lua instruction was dispatched and completed (polled: after a poll) *)
| LPollRaise                            (* a dispatch attempt saw Done() closed and raised the context's error *)
| LExitPoll (raised : bool)             (* the poll after a Go function that ended a dispatch loop *)
| LRet                                  (* control came back to pcall/xpcall/resume/wrap: it returns *)
| LGoCall (fs : list tag)               (* a Go library function calls again *)
| LGoRet                                (* ... returns *)
| LGoRaise                              (* ... raises an error of its own *)
| LUnblock                              (* a blocked channel operation saw Done() closed and raises the context's error *)
| LRecv                                 (* a blocked channel operation completed *)
| LUnwind                               (* the error leaves a frame *)
| LCatch                                (* pcall / resume / xpcall-in-handler turns the error into results *)
| LHandler                              (* xpcall starts its handler *)
| LCancel.                              (* the context becomes done (from outside, at any moment) *)

Definition with_stk (σ : state) (s : list tag) (m : mode) : state :=
  mk s m (cancelled σ) (attached σ) (gofuel σ) (pool σ).

Inductive step : state -> label -> state -> Prop :=
| S_instr : forall σ p s e σ',
    stk σ = TLua p :: s -> md σ = Run -> p && cancelled σ = false ->
    apply_effect σ e = Some σ' ->
    step σ (LInstr p e) σ'
| S_poll : forall σ s,
    stk σ = TLua true :: s -> md σ = Run -> cancelled σ = true ->
    step σ LPollRaise (with_stk σ (stk σ) (Raising ECtx))
| S_exit_poll : forall σ s,
    stk σ = TEntry true :: s -> md σ = Run -> cancelled σ = true ->
    step σ (LExitPoll true) (with_stk σ (stk σ) (Raising ECtx))
| S_exit_ret : forall σ p s,
    stk σ = TEntry p :: s -> md σ = Run -> p && cancelled σ = false ->
    step σ (LExitPoll false) (with_stk σ s Run)
| S_ret : forall σ t s,
    stk σ = t :: s -> md σ = Run ->
    (t = TGoPcall \/ (exists h r, t = TGoXpcall h r) \/ (exists w p, t = TCo w p)) ->
    step σ LRet (with_stk σ s Run)
| S_gocall : forall σ s fs,
    stk σ = TGoPlain :: s -> md σ = Run ->
    fs <> [] -> frames_ok (cur_flag (attached σ) (stk σ)) fs = true -> entry_ok fs = true ->
    length fs <= gofuel σ ->
    step σ (LGoCall fs)
         (mk (fs ++ stk σ) Run (cancelled σ) (attached σ) (gofuel σ - length fs) (pool σ))
| S_goret : forall σ s,
    stk σ = TGoPlain :: s -> md σ = Run ->
    step σ LGoRet (with_stk σ s Run)
| S_goraise : forall σ s,
    stk σ = TGoPlain :: s -> md σ = Run ->
    step σ LGoRaise (with_stk σ (stk σ) (Raising EOther))
| S_unblock : forall σ s,
    stk σ = TGoBlock true :: s -> md σ = Run -> cancelled σ = true ->
    step σ LUnblock (with_stk σ (stk σ) (Raising ECtx))
| S_recv : forall σ p s,
    stk σ = TGoBlock p :: s -> md σ = Run ->
    step σ LRecv (with_stk σ s Run)
| S_unwind : forall σ t s e,
    stk σ = t :: s -> md σ = Raising e -> role_of t = Passes ->
    step σ LUnwind (with_stk σ s (Raising e))
| S_catch : forall σ t s e,
    stk σ = t :: s -> md σ = Raising e -> role_of t = Catches ->
    step σ LCatch (with_stk σ s Run)
| S_handler : forall σ h s e,
    stk σ = TGoXpcall h false :: s -> md σ = Raising e ->
    step σ LHandler
         (with_stk σ (handler_frame h (cur_flag (attached σ) s) :: TGoXpcall h true :: s) Run)
| S_cancel : forall σ,
    attached σ = true -> cancelled σ = false ->
    step σ LCancel (mk (stk σ) (md σ) true (attached σ) (gofuel σ) (pool σ)).

(* Runs: finite sequences of steps with their labels.  An infinite run is the limit of its finite
   prefixes; statements "for all runs" quantify over all of these. *)
Inductive run : state -> list label -> state -> Prop :=
| run_nil : forall σ, run σ [] σ
| run_cons : forall σ l σ1 tr σ2, step σ l σ1 -> run σ1 tr σ2 -> run σ (l :: tr) σ2.

(* A dispatch attempt = one iteration of the polling loop = one call of Done(). *)
Definition is_attempt (l : label) : bool :=
  match l with LInstr true _ | LPollRaise | LExitPoll _ => true | _ => false end.
Definition is_instr (l : label) : bool :=
  match l with LInstr _ _ => true | _ => false end.

Definition attempts (tr : list label) : nat := length (filter is_attempt tr).
Definition instrs (tr : list label) : nat := length (filter is_instr tr).

(* Final states: nothing left to run.  Raising e with an empty stack = the host's
   DoString/PCall returns the error e; Run with an empty stack = it returns normally. *)
Definition final (σ : state) : Prop := stk σ = [].

(* Measures. *)
Definition tag_polls (t : tag) : bool :=
  match t with TLua p | TGoBlock p | TCo _ p | TEntry p => p | _ => true end.
Definition polls_all (s : list tag) : bool := forallb tag_polls s.

Definition is_protected (t : tag) : bool :=
  match role_of t with Passes => false | _ => true end.
Definition protected_depth (s : list tag) : nat := length (filter is_protected s).
Definition depth (s : list tag) : nat := length s.

(* Dispatch attempts a protected frame can still cost: the continuation of pcall/resume polls once;
   xpcall additionally runs its handler, which polls once. *)
Definition weight1 (t : tag) : nat :=
  match role_of t with Passes => 0 | Catches => 1 | Handles _ => 2 end.
Definition weight (s : list tag) : nat := fold_right (fun t n => weight1 t + n) 0 s.

Definition mode_bit (m : mode) : nat := match m with Run => 1 | Raising _ => 0 end.

(* Upper bound on the remaining dispatch attempts / on the remaining steps of a cancelled state. *)
Definition potential (σ : state) : nat := weight (stk σ) + mode_bit (md σ) + 2 * gofuel σ.

Definition fresh_xp (t : tag) : bool := match t with TGoXpcall _ false => true | _ => false end.
Definition steps_measure (σ : state) : nat :=
  3 * length (stk σ) + mode_bit (md σ) + 5 * length (filter fresh_xp (stk σ)) + 9 * gofuel σ.

(* ------------------------------------------------------------------------------------------ *)
(* Executable, deterministic instance of the machine for a state without effects to perform
   (used after cancellation): choices of Go library frames come from an explicit list. *)

Inductive gochoice := GCall (fs : list tag) | GRet | GRaise.

Inductive exec_end :=
| EndFinal (m : mode)      (* stack empty *)
| EndNeedsEffect           (* a Lua frame that may execute an instruction is on top: needs the script *)
| EndBadChoice             (* the supplied Go choice is not enabled *)
| EndOutOfFuel.

(* One step, or why there is none. *)
Definition exec_step (σ : state) (go : list gochoice) : (label * state * list gochoice) + exec_end :=
  match stk σ, md σ with
  | [], m => inr (EndFinal m)
  | TLua p :: s, Run =>
      if p && cancelled σ then inl (LPollRaise, with_stk σ (stk σ) (Raising ECtx), go)
      else inr EndNeedsEffect
  | TGoPlain :: s, Run =>
      match go with
      | GCall fs :: go' =>
          if negb (Nat.eqb (length fs) 0) && frames_ok (cur_flag (attached σ) (stk σ)) fs
             && entry_ok fs && Nat.leb (length fs) (gofuel σ)
          then inl ((LGoCall fs,
                 mk (fs ++ stk σ) Run (cancelled σ) (attached σ) (gofuel σ - length fs) (pool σ), go'))
          else inr EndBadChoice
      | GRaise :: go' => inl (LGoRaise, with_stk σ (stk σ) (Raising EOther), go')
      | GRet :: go' => inl (LGoRet, with_stk σ s Run, go')
      | [] => inl (LGoRet, with_stk σ s Run, [])
      end
  | TEntry p :: s, Run =>
      if p && cancelled σ then inl (LExitPoll true, with_stk σ (stk σ) (Raising ECtx), go)
      else inl (LExitPoll false, with_stk σ s Run, go)
  | TGoBlock p :: s, Run =>
      if p && cancelled σ then inl (LUnblock, with_stk σ (stk σ) (Raising ECtx), go)
      else inl (LRecv, with_stk σ s Run, go)
  | _ :: s, Run => inl (LRet, with_stk σ s Run, go)
  | t :: s, Raising e =>
      match role_of t with
      | Passes => inl (LUnwind, with_stk σ s (Raising e), go)
      | Catches => inl (LCatch, with_stk σ s Run, go)
      | Handles h =>
          inl ((LHandler,
                 with_stk σ (handler_frame h (cur_flag (attached σ) s) :: TGoXpcall h true :: s) Run, go))
      end
  end.

Fixpoint exec (fuel : nat) (σ : state) (go : list gochoice) (acc : list label)
  : list label * state * exec_end :=
  match fuel with
  | O => (rev acc, σ, EndOutOfFuel)
  | S n =>
      match exec_step σ go with
      | inr e => (rev acc, σ, e)
      | inl (l, σ', go') => exec n σ' go' (l :: acc)
      end
  end.

Definition top_flag (σ : state) : bool := match stk σ with TLua p :: _ => p | _ => false end.

Definition cancel_now (σ : state) : state := mk (stk σ) (md σ) true (attached σ) (gofuel σ) (pool σ).

(* Drive the machine with a script of instruction effects; the context becomes done just before
   dispatch attempt number k.  n = attempts so far. *)
Fixpoint drive (fuel : nat) (σ : state) (script : list effect) (k n : nat) (acc : list label)
  : list label * state * exec_end :=
  match fuel with
  | O => (rev acc, σ, EndOutOfFuel)
  | S f =>
      match exec_step σ [] with
      | inl (l, σ', _) => drive f σ' script k (if is_attempt l then S n else n) (l :: acc)
      | inr EndNeedsEffect =>
          if Nat.eqb (S n) k && negb (cancelled σ) && attached σ then drive f (cancel_now σ) script k n (LCancel :: acc)
          else match script with
               | [] => (rev acc, σ, EndNeedsEffect)
               | e :: sc =>
                   match apply_effect σ e with
                   | Some σ' => drive f σ' sc k (if top_flag σ then S n else n) (LInstr (top_flag σ) e :: acc)
                   | None => (rev acc, σ, EndBadChoice)
                   end
               end
      | inr e => (rev acc, σ, e)
      end
  end.

(* The state in which the k-th poll finds the context done: frames [s], everything attached. *)
Definition fired (s : list tag) (g : nat) : state := mk s Run true true g [].

Definition is_block (t : tag) : bool := match t with TGoBlock _ => true | _ => false end.
Definition no_block (s : list tag) : bool := forallb (fun t => negb (is_block t)) s.

(* Closed forms for states in which no Go library frame gets control back (see [armed_run]) and no
   channel operation is pending ([no_block]: a pending one may either raise or complete). *)
Fixpoint cost_run (s : list tag) : nat :=
  match s with
  | [] => 0
  | TLua _ :: s' | TEntry _ :: s' => 1 + cost_raise s'
  | _ :: s' => cost_run s'
  end
with cost_raise (s : list tag) : nat :=
  match s with
  | [] => 0
  | t :: s' =>
      match role_of t with
      | Passes => cost_raise s'
      | Catches => cost_run s'
      | Handles HLua => 1 + cost_run s'
      | Handles HGo => 1 + cost_run s'
      end
  end.

(* [armed_run s]: from a cancelled polling state with frames [s] in mode Run, control never returns
   to a Go library frame or to the host before a poll raises, and the last error reaches the host. *)
Fixpoint armed_run (s : list tag) : bool :=
  match s with
  | [] => false
  | TLua _ :: s' | TEntry _ :: s' => armed_raise s'
  | TGoPlain :: _ => false
  | TGoBlock _ :: s' => armed_run s' && armed_raise s'   (* it may raise the context's error or complete *)
  | _ :: s' => armed_run s'
  end
with armed_raise (s : list tag) : bool :=
  match s with
  | [] => true
  | t :: s' =>
      match role_of t with
      | Passes => armed_raise s'
      | Catches => armed_run s'
      | Handles _ => armed_run s'
      end
  end.

(* ------------------------------------------------------------------------------------------ *)
(* Contexts form a tree: NewThread derives a child (context.WithCancel) of the creator's context.
   A context is the path of ids from itself to its root; marks = ids whose cancel func was called. *)
Definition ctxpath := list nat.
Definition marked (marks : list nat) (i : nat) : bool := existsb (Nat.eqb i) marks.
Definition ctx_done (marks : list nat) (c : ctxpath) : bool := existsb (marked marks) c.
Definition new_thread_ctx (creator : option ctxpath) (fresh : nat) : option ctxpath :=
  match creator with Some c => Some (fresh :: c) | None => None end.
(* c descends from the context with id r *)
Definition descends (r : nat) (c : option ctxpath) : Prop :=
  match c with Some p => In r p | None => False end.

(* The machine without a context (mainLoop): same frames, nothing polls, nothing is cancelled. *)
Definition erase_tag (t : tag) : tag :=
  match t with
  | TLua _ => TLua false
  | TGoBlock _ => TGoBlock false
  | TCo w _ => TCo w false
  | TEntry _ => TEntry false
  | t => t
  end.
Definition erase_thread (th : thread) : thread := (false, map erase_tag (snd th)).
Definition erase (σ : state) : state :=
  mk (map erase_tag (stk σ)) (md σ) false false (gofuel σ) (map erase_thread (pool σ)).
Definition erase_effect (e : effect) : effect :=
  match e with
  | ECall fs g => ECall (map erase_tag fs) g
  | ETail fs g => ETail (map erase_tag fs) g
  | e => e
  end.
Definition erase_label (l : label) : label :=
  match l with
  | LInstr _ e => LInstr false (erase_effect e)
  | LGoCall fs => LGoCall (map erase_tag fs)
  | l => l
  end.

Definition init_attached : state := mk [TLua true] Run false true 0 [].
