(* M-Stack / CtxTree: the bookkeeping of the contexts that threads derive from one another when the
   state has a context (state.go: type ctxNode, ctxNode.release, LState.deriveContext, LState.kill).
   Model only, no proofs.

   Go                                     here
   thread k+1 (k-th thread made)          node k of the forest (the main state, thread 0, has no node)
   context.WithCancel(from.ctx)           ncreator: the node whose context this one is a child of
                                          (None = the context given to SetContext); never changes.
                                          Go cancels a derived context when the one it was derived from
                                          is cancelled: [done_flags]
   n.cancel == nil (after n.cancel())     nreleased = true
   n.parent / n.children / n.dead         nparent / nchildren / ndead
   the context given to SetContext        is not done (the property is about undone contexts) *)
From GL Require Export Common.Bytes.

Record cnode := mkNode {
  ncreator : option nat;
  nreleased : bool;
  nparent : option nat;
  nchildren : Z;
  ndead : bool
}.

Definition forest := list cnode.

Fixpoint setn {A} (i : nat) (x : A) (l : list A) : list A :=
  match l, i with
  | [], _ => []
  | _ :: t, O => x :: t
  | y :: t, S k => y :: setn k x t
  end.

(* func (n *ctxNode) release():
     if n.cancel == nil || n.children > 0 { return }
     n.cancel(); n.cancel = nil
     if p := n.parent; p != nil { n.parent = nil; p.children--; if p.dead { p.release() } }
   The recursion climbs towards older nodes; [fuel] bounds it, None = out of fuel (never with
   fuel > i, see CtxTreeFacts.release_fuel). *)
Fixpoint release (fuel : nat) (f : forest) (i : nat) : option forest :=
  match fuel with
  | O => None
  | S fu =>
      match nth_error f i with
      | None => Some f
      | Some n =>
          if nreleased n || (nchildren n >? 0) then Some f
          else
            let f1 := setn i (mkNode (ncreator n) true None (nchildren n) (ndead n)) f in
            match nparent n with
            | None => Some f1
            | Some p =>
                match nth_error f1 p with
                | None => Some f1
                | Some pn =>
                    let f2 := setn p (mkNode (ncreator pn) (nreleased pn) (nparent pn) (nchildren pn - 1) (ndead pn)) f1 in
                    if ndead pn then release fu f2 p else Some f2
                end
            end
      end
  end.

(* func (ls *LState) kill(): ls.Dead = true; if n := ls.ctxNode; n != nil { n.dead = true; n.release() } *)
Definition kill (f : forest) (i : nat) : option forest :=
  match nth_error f i with
  | None => Some f
  | Some n => release (S i) (setn i (mkNode (ncreator n) (nreleased n) (nparent n) (nchildren n) true) f) i
  end.

(* func (ls *LState) deriveContext(from *LState):
     ls.ctx, f = context.WithCancel(from.ctx)
     ls.ctxNode = &ctxNode{cancel: f, parent: from.ctxNode}
     if from.ctxNode != nil { from.ctxNode.children++ } *)
Definition derive (f : forest) (from : option nat) : forest :=
  let f1 := match from with
            | None => f
            | Some p =>
                match nth_error f p with
                | None => f
                | Some pn => setn p (mkNode (ncreator pn) (nreleased pn) (nparent pn) (nchildren pn + 1) (ndead pn)) f
                end
            end in
  f1 ++ [mkNode from false from 0 false].

(* ctx.Err() != nil of every node's context, oldest first: its own cancel function was called, or the
   context it was derived from is done ([acc]: the flags of the nodes before) *)
Fixpoint effs (f : forest) (acc : list bool) : list bool :=
  match f with
  | [] => acc
  | n :: t =>
      effs t (acc ++ [nreleased n || match ncreator n with None => false | Some p => nth p acc false end])
  end.
Definition done_flags (f : forest) : list bool := effs f [].

(* ---------------------------------------------------------------------------------------------- *)
(* Histories (thread numbers: 0 = the main state, k+1 = node k).                                  *)

Inductive xop :=
| XNew (from : nat)        (* from.NewThread() (coroutine.create / wrap run by thread [from]) *)
| XDie (th : nat).         (* thread [th] finishes or dies of an error: th.kill() *)

Definition node_of (t : nat) : option nat := match t with O => None | S k => Some k end.

Definition alive (f : forest) (t : nat) : bool :=
  match t with
  | O => true
  | S k => match nth_error f k with Some n => negb (ndead n) | None => false end
  end.

(* the domain: only a live thread runs code (creates threads); only a live coroutine dies *)
Definition xdom (f : forest) (o : xop) : bool :=
  match o with
  | XNew from => alive f from
  | XDie O => false
  | XDie (S k) => alive f (S k)
  end.

Definition xstep (f : forest) (o : xop) : option forest :=
  match o with
  | XNew from => Some (derive f (node_of from))
  | XDie O => Some f
  | XDie (S k) => kill f k
  end.

Fixpoint xrun (f : forest) (ops : list xop) : option forest :=
  match ops with
  | [] => Some f
  | o :: t => match xstep f o with Some f1 => xrun f1 t | None => None end
  end.

Fixpoint xdomrun (f : forest) (ops : list xop) : bool :=
  match ops with
  | [] => true
  | o :: t => xdom f o && match xstep f o with Some f1 => xdomrun f1 t | None => false end
  end.

(* the observations of a history: the done flags after every operation *)
Fixpoint xobs (f : forest) (ops : list xop) : list (list bool) :=
  match ops with
  | [] => []
  | o :: t =>
      match xstep f o with
      | Some f1 => done_flags f1 :: xobs f1 t
      | None => []
      end
  end.

(* the specification, on observed flags: as long as the history is in its domain, the context of a
   live thread is not done ([deadl]: which threads have died so far, oldest first) *)
Fixpoint live_not_done (deadl flags : list bool) : bool :=
  match deadl, flags with
  | [], [] => true
  | d :: dt, c :: ct => (d || negb c) && live_not_done dt ct
  | _, _ => false
  end.

Definition sdom (deadl : list bool) (o : xop) : bool :=
  match o with
  | XNew O => true
  | XNew (S k) => negb (nth k deadl true)
  | XDie O => false
  | XDie (S k) => negb (nth k deadl true)
  end.

Definition sstep (deadl : list bool) (o : xop) : list bool :=
  match o with
  | XNew _ => deadl ++ [false]
  | XDie O => deadl
  | XDie (S k) => setn k true deadl
  end.

Fixpoint spec_ctx (deadl : list bool) (ops : list xop) (obs : list (list bool)) : bool :=
  match ops, obs with
  | [], [] => true
  | o :: t, b :: bt =>
      if sdom deadl o then
        let d1 := sstep deadl o in live_not_done d1 b && spec_ctx d1 t bt
      else true
  | _, _ => false
  end.

(* the history on the specification side: which threads have died; its domain *)
Fixpoint srun (d : list bool) (ops : list xop) : list bool :=
  match ops with [] => d | o :: t => srun (sstep d o) t end.
Fixpoint sdomrun (d : list bool) (ops : list xop) : bool :=
  match ops with [] => true | o :: t => sdom d o && sdomrun (sstep d o) t end.

(* release without the `if p.dead` guard (the seeded change C12-10), for ctx_release_noguard_refuted *)
Fixpoint release_noguard (fuel : nat) (f : forest) (i : nat) : option forest :=
  match fuel with
  | O => None
  | S fu =>
      match nth_error f i with
      | None => Some f
      | Some n =>
          if nreleased n || (nchildren n >? 0) then Some f
          else
            let f1 := setn i (mkNode (ncreator n) true None (nchildren n) (ndead n)) f in
            match nparent n with
            | None => Some f1
            | Some p =>
                match nth_error f1 p with
                | None => Some f1
                | Some pn =>
                    release_noguard fu (setn p (mkNode (ncreator pn) (nreleased pn) (nparent pn) (nchildren pn - 1) (ndead pn)) f1) p
                end
            end
      end
  end.

