(* M-Stack / Handover: a coroutine hands its yielded / returned values (or its error) to the thread
   that resumed it (vm.go: switchToParentThread, the non-wrapped branch of threadRun's recovery).
   The registry part only. Model only, no proofs.

     need := parent.reg.top + nargs
     if !L.wrapped { need++ }
     fits := need <= parent.reg.limit || need <= parent.reg.maxSize
     if fits {
         if !L.wrapped { parent.Push(LTrue / LFalse) }
         L.XMoveTo(parent, nargs)            // parent.Push(v) for each value, then L.SetTop(top - nargs)
     } else {
         L.reg.SetTop(L.reg.Top() - nargs)   // the values are dropped
     }
     ... the yield frame is popped / the thread is killed (the epilogue) ...
     if !fits { parent.registryOverflow() }

   A Push that overflows raises the error at once: everything after it in the function is skipped. *)
From GL Require Export Stack.Registry Stack.RegSpec.

Fixpoint pushAll (p : registry) (vs : list cell) : res registry :=
  match vs with
  | [] => Ok p
  | v :: t => p1 <- Push p v ;; pushAll p1 t
  end.

(* the last n cells of the live part of the child: what XMoveTo moves *)
Definition lastn (n : Z) (l : list cell) : list cell := skipn (Z.to_nat (len l - n)) l.

Inductive ho_result :=
| HoDone (p c : registry)       (* values handed over, epilogue done *)
| HoRefused (p c : registry)    (* nothing handed over, values dropped, epilogue done, then "registry overflow" raised in the resumer *)
| HoTorn                        (* a Push raised in the middle: the resumer holds part of the values, the
                                   coroutine's values are not dropped, the epilogue did not run *)
| HoFault.

(* [count_flag]: whether the pre-check counts the status boolean (the code does; see handover_nocount_torn) *)
Definition handover_gen (count_flag : bool) (p c : registry) (wrapped : bool) (flag : cell) (nargs : Z) : ho_result :=
  let need := top p + nargs + (if wrapped || negb count_flag then 0 else 1) in
  let fits := (need <=? limit p) || (need <=? maxSize p) in
  let vs := lastn nargs (live c) in
  if fits then
    match pushAll p (if wrapped then vs else flag :: vs) with
    | Ok p1 =>
        match SetTop c (top c - nargs) with
        | Ok c1 => HoDone p1 c1
        | _ => HoFault
        end
    | Overflow => HoTorn
    | Fault => HoFault
    end
  else
    match SetTop c (top c - nargs) with
    | Ok c1 => HoRefused p c1
    | _ => HoFault
    end.

Definition handover := handover_gen true.

(* the values the resumer receives *)
Definition handed (wrapped : bool) (flag : cell) (vs : list cell) : list cell :=
  if wrapped then vs else flag :: vs.
