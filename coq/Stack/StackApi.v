(* M-Stack / StackApi: the Go API value-stack operations of LState, relative to the LocalBase of the
   current activation (state.go: indexToReg, currentLocalBase, GetTop, SetTop, Replace, Get, Push,
   Pop, Insert, Remove), the register-window arithmetic of calls (callR, callGFunction,
   copyReturnValues, PCall's recovery) and the list-level specification they are proved to refine.
   Model only, no proofs. *)
From GL Require Export Stack.Registry.

(* ---------------------------------------------------------------------------------------------- *)
(* Implementation model: operations on (registry, base), base = ls.currentLocalBase().            *)

Definition RegistryIndex : Z := -10000.
Definition MultRet : Z := -1.

(* func (ls *LState) indexToReg(idx int) int *)
Definition indexToReg (r : registry) (base idx : Z) : Z :=
  if idx >? 0 then base + idx - 1
  else if idx =? 0 then -1
  else
    let tidx := top r + idx in
    if tidx <? base then -1 else tidx.

(* func (ls *LState) GetTop() int *)
Definition apiGetTop (r : registry) (base : Z) : Z := top r - base.

(* result of an API operation: RaiseError leaves its message on the registry and panics *)
Inductive ares :=
| AOk (r : registry)
| ARaised (r : registry)
| AOverflow
| AFault.          (* Go panic / pseudo-indices <= RegistryIndex: not modelled, never generated *)

Definition lift (x : res registry) : ares :=
  match x with Ok r => AOk r | Overflow => AOverflow | Fault => AFault end.

(* ls.RaiseError(...) seen from the registry: raiseError pushes the message *)
Definition raise (r : registry) : ares :=
  match raisePush r (Some VMsg) with Ok r1 => ARaised r1 | Overflow => AOverflow | Fault => AFault end.

(* func (ls *LState) SetTop(idx int) *)
Definition apiSetTop (r : registry) (base idx : Z) : ares :=
  let newtop := indexToReg r base idx + 1 in
  if newtop <? base then lift (SetTop r base) else lift (SetTop r newtop).

(* func (ls *LState) Replace(idx int, value LValue) *)
Definition apiReplace (r : registry) (base idx : Z) (v : cell) : ares :=
  if idx >? 0 then
    let reg := base + idx - 1 in
    if reg <? top r then lift (Set_ r reg v) else AOk r
  else if idx =? 0 then AOk r
  else if idx >? RegistryIndex then
    let tidx := top r + idx in
    if tidx >=? base then lift (Set_ r tidx v) else AOk r
  else AFault.

(* func (ls *LState) Get(idx int) LValue *)
Definition apiGet (r : registry) (base idx : Z) : res cell :=
  if idx >? 0 then
    let reg := base + idx - 1 in
    if reg <? top r then Get r reg else Ok cNil
  else if idx =? 0 then Ok cNil
  else if idx >? RegistryIndex then
    let tidx := top r + idx in
    if tidx <? base then Ok cNil else Get r tidx
  else Fault.

(* func (ls *LState) Push(value LValue) *)
Definition apiPush (r : registry) (v : cell) : ares := lift (Push r v).

(* func (ls *LState) Pop(n int): for i := 0; i < n; i++ { if GetTop()==0 { RaiseError } ; reg.Pop() } *)
Fixpoint popLoop (r : registry) (base : Z) (k : nat) : ares :=
  match k with
  | O => AOk r
  | S k' =>
      if apiGetTop r base =? 0 then raise r
      else match Pop r with
           | Ok (r1, _) => popLoop r1 base k'
           | Overflow => AOverflow
           | Fault => AFault
           end
  end.
Definition apiPop (r : registry) (base n : Z) : ares := popLoop r base (Z.to_nat n).

(* func (ls *LState) Insert(value LValue, index int) *)
Definition apiInsert (r : registry) (base : Z) (v : cell) (index : Z) : ares :=
  let reg := indexToReg r base index in
  let t := top r in
  if reg >=? t then
    (* if reg > top { ls.reg.SetTop(reg) }: the cells skipped become LNil (fix of C10 obs-4) *)
    lift (r1 <- (if reg >? t then SetTop r reg else Ok r) ;; Set_ r1 reg v)
  else
    let reg := if reg <=? base then base else reg in
    lift (r1 <- insertLoop r (t - 1) (Z.to_nat (t - reg)) ;; Set_ r1 reg v).

(* for i := reg; i < top-1; i++ { ls.reg.Set(i, ls.reg.Get(i+1)) } *)
Fixpoint removeLoop (r : registry) (i : Z) (k : nat) : res registry :=
  match k with
  | O => Ok r
  | S k' => r1 <- Set_ r i (rd (arr r) (i + 1)) ;; removeLoop r1 (i + 1) k'
  end.

(* func (ls *LState) Remove(index int) *)
Definition apiRemove (r : registry) (base index : Z) : ares :=
  let reg := indexToReg r base index in
  let t := top r in
  if reg >=? t then AOk r
  else if reg <? base then AOk r
  else if reg =? t - 1 then apiPop r base 1
  else lift (r1 <- removeLoop r reg (Z.to_nat (t - 1 - reg)) ;; SetTop r1 (t - 1)).

(* ---------------------------------------------------------------------------------------------- *)
(* Scripts of API operations (the host-function harness of C10).                                  *)

Inductive aop :=
| APush (v : value)
| APop (n : Z)
| AGet (idx : Z)
| ASetTop (idx : Z)
| AInsert (v : value) (idx : Z)
| ARemove (idx : Z)
| AReplace (idx : Z) (v : value)
| AGetTop.

Inductive astatus := StOk | StRaised | StOverflow | StFault.
Definition astatus_eqb a b :=
  match a, b with
  | StOk, StOk | StRaised, StRaised | StOverflow, StOverflow | StFault, StFault => true
  | _, _ => false
  end.

(* what the host function logs after every operation: the operation's own result (Get: the cell,
   GetTop: the count as VInt), then GetTop() and Get(1) .. Get(GetTop()) *)
Record aobs := mkAobs { a_st : astatus; a_ret : option cell; a_top : Z; a_cells : list cell }.
Definition aobs_eqb (a b : aobs) : bool :=
  astatus_eqb (a_st a) (a_st b) && opt_eqb cell_eqb (a_ret a) (a_ret b) && (a_top a =? a_top b)
  && cells_eqb (a_cells a) (a_cells b).

Definition astep (r : registry) (base : Z) (o : aop) : ares * option cell :=
  match o with
  | APush v => (apiPush r (Some v), None)
  | APop n => (apiPop r base n, None)
  | AGet idx => match apiGet r base idx with
                | Ok c => (AOk r, Some c) | Overflow => (AOverflow, None) | Fault => (AFault, None) end
  | ASetTop idx => (apiSetTop r base idx, None)
  | AInsert v idx => (apiInsert r base (Some v) idx, None)
  | ARemove idx => (apiRemove r base idx, None)
  | AReplace idx v => (apiReplace r base idx (Some v), None)
  | AGetTop => (AOk r, Some (Some (VInt (apiGetTop r base))))
  end.

(* the dump: Get(1) .. Get(GetTop()) through the API *)
Definition getOr (x : res cell) : cell := match x with Ok c => c | _ => Some VMsg end.
Definition zseq (n : Z) : list Z := map Z.of_nat (seq 1 (Z.to_nat n)).
Definition dump (r : registry) (base : Z) : list cell :=
  map (fun i => getOr (apiGet r base i)) (zseq (apiGetTop r base)).

(* a script stops at the first operation that raises (the harness ends the script there) *)
Fixpoint arun (r : registry) (base : Z) (ops : list aop) : list aobs * registry :=
  match ops with
  | [] => ([], r)
  | o :: rest =>
      match astep r base o with
      | (AOk r1, ret) =>
          let (t, rf) := arun r1 base rest in
          (mkAobs StOk ret (apiGetTop r1 base) (dump r1 base) :: t, rf)
      | (ARaised r1, ret) => ([mkAobs StRaised ret (apiGetTop r1 base) (dump r1 base)], r1)
      | (AOverflow, _) => ([mkAobs StOverflow None 0 []], r)
      | (AFault, _) => ([mkAobs StFault None 0 []], r)
      end
  end.

(* ---------------------------------------------------------------------------------------------- *)
(* Specification: the same operations as operations on the private list [l] of the activation,    *)
(* indexed 1..n from the bottom or -1..-n from the top.                                           *)

Definition absIndex (n idx : Z) : Z :=
  if idx >? 0 then idx else if idx =? 0 then 0 else n + idx + 1.
Definition validIdx (n idx : Z) : bool :=
  let a := absIndex n idx in (1 <=? a) && (a <=? n).

Definition nthZ (l : list cell) (i : Z) : cell := nth (Z.to_nat i) l cNil.     (* 0-based *)

Definition resizeL (l : list cell) (n : Z) : list cell :=
  firstn (Z.to_nat n) l ++ repeat cNil (Z.to_nat (n - len l)).

Definition L_get (l : list cell) (idx : Z) : cell :=
  if validIdx (len l) idx then nthZ l (absIndex (len l) idx - 1) else cNil.

Definition L_settop (l : list cell) (idx : Z) : list cell :=
  resizeL l (if idx >=? 0 then idx else Z.max 0 (len l + idx + 1)).

Definition L_replace (l : list cell) (idx : Z) (v : cell) : list cell :=
  if validIdx (len l) idx then
    let a := absIndex (len l) idx in
    firstn (Z.to_nat (a - 1)) l ++ v :: skipn (Z.to_nat a) l
  else l.

Definition L_push (l : list cell) (v : cell) : list cell := l ++ [v].

(* Pop(n): removes the n top-most values; asking for more than there are raises
   "register underflow" after everything was popped (the message is then on the stack) *)
Definition L_pop (l : list cell) (n : Z) : list cell * bool :=
  if n <=? len l then (firstn (Z.to_nat (len l - Z.max 0 n)) l, false)
  else ([Some VMsg], true).

(* Insert(v, idx): v becomes element number a, the former a.. move up; an index at or below the
   bottom (0, or negative beyond -n) means the bottom; beyond top+1 the list is nil-extended first. *)
Definition insPos (n idx : Z) : Z :=
  if idx >? 0 then idx else if validIdx n idx then absIndex n idx else 1.
Definition L_insert (l : list cell) (v : cell) (idx : Z) : list cell :=
  let a := insPos (len l) idx in
  if a >? len l + 1 then resizeL l (a - 1) ++ [v]
  else firstn (Z.to_nat (a - 1)) l ++ v :: skipn (Z.to_nat (a - 1)) l.

Definition L_remove (l : list cell) (idx : Z) : list cell :=
  if validIdx (len l) idx then
    let a := absIndex (len l) idx in
    firstn (Z.to_nat (a - 1)) l ++ skipn (Z.to_nat a) l
  else l.

(* the domain of the list specification for one operation on a list of n elements *)
Definition aop_dom (n : Z) (o : aop) : bool :=
  match o with
  | AInsert _ idx => RegistryIndex <? idx
  | ASetTop idx | AGet idx | ARemove idx => RegistryIndex <? idx
  | AReplace idx _ => RegistryIndex <? idx
  | _ => true
  end.

(* one operation on the list: new list, returned value, raised? *)
Definition L_step (l : list cell) (o : aop) : list cell * option cell * bool :=
  match o with
  | APush v => (L_push l (Some v), None, false)
  | APop n => let (l', rs) := L_pop l n in (l', None, rs)
  | AGet idx => (l, Some (L_get l idx), false)
  | ASetTop idx => (L_settop l idx, None, false)
  | AInsert v idx => (L_insert l (Some v) idx, None, false)
  | ARemove idx => (L_remove l idx, None, false)
  | AReplace idx v => (L_replace l idx (Some v), None, false)
  | AGetTop => (l, Some (Some (VInt (len l))), false)
  end.

Fixpoint L_run (l : list cell) (ops : list aop) : list aobs * list cell :=
  match ops with
  | [] => ([], l)
  | o :: rest =>
      match L_step l o with
      | (l1, ret, false) =>
          let (t, lf) := L_run l1 rest in (mkAobs StOk ret (len l1) l1 :: t, lf)
      | (l1, ret, true) => ([mkAobs StRaised ret (len l1) l1], l1)
      end
  end.

(* every operation of the script is inside the domain, along the list run *)
Fixpoint L_dom (l : list cell) (ops : list aop) : bool :=
  match ops with
  | [] => true
  | o :: rest =>
      aop_dom (len l) o &&
      match L_step l o with
      | (l1, _, false) => L_dom l1 rest
      | (_, _, true) => true
      end
  end.

(* the registry size an operation asks for, on a frame base b and a list of n elements *)
Definition aneed (b n : Z) (o : aop) : Z :=
  match o with
  | APush _ => b + n + 1
  | ASetTop idx => if idx >=? 0 then b + idx else 0
  | AInsert _ idx => b + Z.max (n + 1) (insPos n idx)
  | _ => 0
  end.

(* the registry (limit lim, see RegSpec.Rr) is large enough for the whole script *)
Fixpoint L_fits (b lim : Z) (l : list cell) (ops : list aop) : bool :=
  match ops with
  | [] => true
  | o :: rest =>
      (aneed b (len l) o <=? lim) &&
      match L_step l o with
      | (l1, _, false) => L_fits b lim l1 rest
      | (_, _, true) => true
      end
  end.

(* ---------------------------------------------------------------------------------------------- *)
(* Register-window arithmetic of calls.                                                            *)

(* vm.go callGFunction (non-tail, no yield) followed by the tail of callR:
     wantret := frame.NRet; if wantret == MultRet { wantret = gfnret }
     L.reg.CopyRange(frame.ReturnBase, L.reg.Top()-gfnret, -1, wantret)
     [callR]  if nret != MultRet { ls.reg.SetTop(rbase + nret) } *)
Definition gReturn (r : registry) (returnBase gfnret nret : Z) : res registry :=
  let wantret := if nret =? MultRet then gfnret else nret in
  r1 <- CopyRange r returnBase (top r - gfnret) (-1) wantret ;;
  if nret =? MultRet then Ok r1 else SetTop r1 (returnBase + nret).

(* vm.go copyReturnValues(L, regv, start, n, b) *)
Definition copyReturnValues (r : registry) (regv start n b : Z) : res registry :=
  if b =? 1 then FillNil r regv n
  else
    r1 <- CopyRange r regv start (-1) n ;;
    if (b >? 1) && (n >? b - 1) then FillNil r1 (regv + b - 1) (n - (b - 1)) else Ok r1.

(* OP_RETURN A B of a Lua callee whose frame has LocalBase lbase, ReturnBase returnBase, NRet wanted,
   followed by the tail of callR *)
Definition luaReturn (r : registry) (lbase A B returnBase wanted : Z) : res registry :=
  let RA := lbase + A in
  let nret := if B =? 0 then top r - RA else B - 1 in
  let n := if wanted =? MultRet then nret else wanted in
  r1 <- copyReturnValues r returnBase RA n B ;;
  if wanted =? MultRet then Ok r1 else SetTop r1 (returnBase + wanted).

(* initCallFrame for a Go function: ls.reg.SetTop(cf.LocalBase + cf.NArgs) *)
Definition initG (r : registry) (localBase nargs : Z) : res registry := SetTop r (localBase + nargs).

(* initCallFrame for a Lua function that is not vararg (np parameters, nregs used registers) *)
Definition initLuaFixed (r : registry) (localBase nargs np nregs : Z) : res registry :=
  r1 <- (if nargs <? np then
           r' <- checkSize r (localBase + np) ;;
           Ok (with_arr_top r' (fill (arr r') (localBase + nargs) (localBase + np) cNil) (localBase + np))
         else Ok r) ;;
  let nargs1 := if nargs <? np then np else nargs in
  let nargs2 := if nargs1 <? nregs then nregs else nargs1 in
  r2 <- checkSize r1 (localBase + nargs2) ;;
  Ok (with_arr_top r2 (fill (arr r2) (localBase + np) (localBase + nargs2) cNil) (localBase + nregs)).

(* PCall's recovery seen from the registry: ls.reg.SetTop(base), base = Top() - nargs - 1 at entry *)
Definition pcallRecover (r : registry) (base : Z) : res registry := SetTop r base.

(* CallByParam(P{Fn, NRet, Protect}, args...) with a Go callee that pushes [junk] and then
   [results] and returns len results (or raises after pushing junk when fails = true).
   The result is the registry afterwards and whether an error was returned. *)
Fixpoint pushAll (r : registry) (vs : list cell) : res registry :=
  match vs with [] => Ok r | v :: t => r1 <- Push r v ;; pushAll r1 t end.

Definition callByParamG (r : registry) (fn : cell) (args junk results : list cell)
           (nret : Z) (fails : bool) : res (registry * bool) :=
  r1 <- Push r fn ;;
  r2 <- pushAll r1 args ;;
  let nargs := len args in
  let base := top r2 - nargs - 1 in                      (* callR / PCall *)
  r3 <- initG r2 (base + 1) nargs ;;
  r4 <- pushAll r3 junk ;;
  if fails then
    r5 <- raisePush r4 (Some VMsg) ;;
    r6 <- pcallRecover r5 base ;;
    Ok (r6, true)
  else
    r5 <- pushAll r4 results ;;
    r6 <- gReturn r5 base (len results) nret ;;
    Ok (r6, false).

(* the contract: NRet results, all of them for MultRet, nil-padded or truncated otherwise *)
Definition adjust (nret : Z) (results : list cell) : list cell :=
  if nret =? MultRet then results else resizeL results nret.
