(* Proofs about the register-window arithmetic of calls (StackApi.v: gReturn, copyReturnValues,
   luaReturn, callByParamG): exactly NRet results replace the function and its arguments. *)
From GL Require Import Stack.Registry Stack.RegSpec Stack.StackApi Stack.ArrayFacts Stack.RegistryFacts
  Stack.StackApiFacts.
From Coq Require Import Lia ZifyBool.

(* ---------- CopyRange towards lower registers: nothing is overwritten before it is read ---------- *)

Definition srcval (a : list cell) (regv start lim p : Z) : cell :=
  let s := start + (p - regv) in if (s >=? lim) || (s <? 0) then cNil else rd a s.

Lemma copyLoop_fwd regv start lim : forall k a i p,
  regv <= start -> 0 <= regv -> 0 <= i -> regv + i + Z.of_nat k <= len a ->
  rd (copyLoop a regv start lim i k) p =
  if (regv + i <=? p) && (p <? regv + i + Z.of_nat k) then srcval a regv start lim p else rd a p.
Proof.
  induction k as [|k IH]; intros a i p Hrs Hr Hi Hlen; simpl copyLoop.
  - destruct ((regv + i <=? p) && (p <? regv + i + Z.of_nat 0)) eqn:E; [lia|reflexivity].
  - rewrite IH by (rewrite ?len_upd; lia). unfold srcval. rewrite !rd_upd.
    cases_if_prune; try lia; try reflexivity; try (f_equal; lia).
Qed.

Lemma copyRangeL_down (l : list cell) regv start n :
  0 <= regv <= start -> start <= len l -> 0 <= n ->
  copyRangeL l regv start (-1) n = firstn (Z.to_nat regv) l ++ resizeL (skipn (Z.to_nat start) l) n.
Proof.
  intros Hr Hs Hn. pose proof (len_nonneg l). unfold copyRangeL.
  replace ((-1 =? -1) || (-1 >? len l)) with true by reflexivity.
  set (l0 := l ++ repeat None (Z.to_nat (regv + n - len l))).
  assert (Hl0 : len l0 = Z.max (len l) (regv + n)) by (unfold l0; rewrite len_app, len_repeat; lia).
  apply list_eq_rd.
  - rewrite len_firstn, copyLoop_len. unfold resizeL. rd_norm. lia.
  - intros i Hi. rewrite len_firstn, copyLoop_len in Hi.
    rewrite rd_firstn. destruct (i <? regv + n) eqn:E; [|lia].
    rewrite copyLoop_fwd by lia. unfold srcval, resizeL, l0. rd_norm.
    cases_if_prune; try lia; try reflexivity; try (f_equal; lia).
Qed.

(* ---------- the return of a Go function ---------- *)

Lemma gfunction_results_lemma : forall r pre fn junk results nret lim,
  Rr r (pre ++ fn :: junk ++ results) lim -> -1 <= nret -> len pre + nret <= lim ->
  exists r', gReturn r (len pre) (len results) nret = Ok r' /\ Rr r' (pre ++ adjust nret results) lim.
Proof.
  intros r pre fn junk results nret lim HR Hnret Hfit.
  pose proof (len_nonneg pre). pose proof (len_nonneg junk). pose proof (len_nonneg results).
  pose proof HR as [Ht Hcap Hlc _ Hlim _].
  assert (HL : len (pre ++ fn :: junk ++ results) = len pre + 1 + len junk + len results) by (rd_norm; lia).
  unfold gReturn, adjust, MultRet in *.
  set (want := if nret =? -1 then len results else nret).
  assert (Hw : 0 <= want /\ len pre + want <= lim) by (unfold want; destruct (nret =? -1) eqn:E; lia).
  destruct (CopyRange_ok r (pre ++ fn :: junk ++ results) lim (len pre) (top r - len results) (-1) want HR)
    as (r1 & Hc & HR1); try lia.
  rewrite Hc. cbn [bind].
  rewrite copyRangeL_down in HR1 by lia.
  assert (Hlist : firstn (Z.to_nat (len pre)) (pre ++ fn :: junk ++ results) ++
                  resizeL (skipn (Z.to_nat (top r - len results)) (pre ++ fn :: junk ++ results)) want
                  = pre ++ resizeL results want).
  { rewrite Ht, HL. unfold resizeL. pw. }
  rewrite Hlist in HR1.
  destruct (nret =? -1) eqn:E.
  - exists r1. split; [reflexivity|]. unfold want in HR1; rewrite ?E in HR1.
    replace (resizeL results (len results)) with results in HR1; [exact HR1|]. unfold resizeL. pw.
  - unfold want in *; rewrite ?E in *.
    destruct (SetTop_ok r1 (pre ++ resizeL results nret) lim (len pre + nret) HR1) as (r2 & Hs & HR2); [lia|].
    exists r2. split; [exact Hs|].
    replace (resizeN (pre ++ resizeL results nret) (len pre + nret)) with (pre ++ resizeL results nret) in HR2;
      [exact HR2|]. unfold resizeN, resizeL. pw.
Qed.

(* ---------- pushing several values ---------- *)

Lemma pushAll_ok : forall vs r l lim, Rr r l lim -> len l + len vs <= lim ->
  exists r', pushAll r vs = Ok r' /\ Rr r' (l ++ vs) lim.
Proof.
  induction vs as [|v t IH]; intros r l lim HR Hn; cbn [pushAll].
  - exists r. split; [reflexivity|]. now rewrite app_nil_r.
  - rewrite len_cons in Hn. pose proof (len_nonneg t).
    destruct (Push_ok r l lim v HR) as (r1 & Hp & HR1); [lia|]. rewrite Hp. cbn [bind].
    destruct (IH r1 (l ++ [v]) lim HR1) as (r2 & Hp2 & HR2); [rewrite len_app; unfold len at 2; simpl; lia|].
    exists r2. split; [exact Hp2|]. rewrite <- app_assoc in HR2. exact HR2.
Qed.

(* ---------- CallByParam with a Go callee, as a whole ---------- *)

Lemma call_contract_lemma : forall r pre l fn args junk results nret fails lim,
  Rr r (pre ++ l) lim -> -1 <= nret ->
  len pre + len l + 1 + len args + len junk + len results + 1 <= lim ->
  len pre + len l + nret <= lim ->
  exists r', callByParamG r fn args junk results nret fails = Ok (r', fails) /\
             Rr r' (pre ++ l ++ (if fails then [] else adjust nret results)) lim.
Proof.
  intros r pre l fn args junk results nret fails lim HR Hnret Hroom Hret.
  pose proof (len_nonneg pre). pose proof (len_nonneg l). pose proof (len_nonneg args).
  pose proof (len_nonneg junk). pose proof (len_nonneg results).
  unfold callByParamG.
  destruct (Push_ok r (pre ++ l) lim fn HR) as (r1 & Q1 & HR1); [rd_norm; lia|]. rewrite Q1. cbn [bind].
  destruct (pushAll_ok args r1 _ lim HR1) as (r2 & Q2 & HR2); [rd_norm; lia|]. rewrite Q2. cbn [bind].
  pose proof HR2 as [Ht2 _ _ _ _ _].
  assert (HL2 : len (((pre ++ l) ++ [fn]) ++ args) = len pre + len l + 1 + len args) by (rd_norm; lia).
  assert (Hbase : top r2 - len args - 1 = len pre + len l) by lia.
  rewrite Hbase. unfold initG.
  destruct (SetTop_ok r2 _ lim (len pre + len l + 1 + len args) HR2) as (r3 & Q3 & HR3); [lia|].
  rewrite Q3. cbn [bind].
  replace (resizeN (((pre ++ l) ++ [fn]) ++ args) (len pre + len l + 1 + len args))
    with (((pre ++ l) ++ [fn]) ++ args) in HR3 by (unfold resizeN; pw).
  destruct (pushAll_ok junk r3 _ lim HR3) as (r4 & Q4 & HR4); [lia|]. rewrite Q4. cbn [bind].
  destruct fails.
  - destruct (raisePush_ok r4 _ lim (Some VMsg) HR4) as (r5 & Q5 & HR5). rewrite Q5. cbn [bind].
    unfold pcallRecover.
    assert (Hlim5 : len pre + len l <= limit r5).
    { pose proof HR5 as [Ht5 _ Htl5 _ _ _ _]. rewrite Ht5 in Htl5. rd_norm_in Htl5. lia. }
    destruct (SetTop_down1 r5 _ lim (len pre + len l) HR5) as (r6 & Q6 & HR6); [rd_norm; lia|exact Hlim5|].
    rewrite Q6. cbn [bind].
    eexists. split; [reflexivity|].
    replace (pre ++ l ++ []) with (firstn (Z.to_nat (len pre + len l)) (((((pre ++ l) ++ [fn]) ++ args) ++ junk) ++ [Some VMsg]));
      [exact HR6|]. pw.
  - destruct (pushAll_ok results r4 _ lim HR4) as (r5 & Q5 & HR5); [rd_norm; lia|]. rewrite Q5. cbn [bind].
    replace (((((pre ++ l) ++ [fn]) ++ args) ++ junk) ++ results)
      with ((pre ++ l) ++ fn :: (args ++ junk) ++ results) in HR5 by (rewrite <- !app_assoc; reflexivity).
    destruct (gfunction_results_lemma r5 (pre ++ l) fn (args ++ junk) results nret lim HR5 Hnret) as (r6 & Q6 & HR6);
      [rd_norm; lia|].
    rewrite len_app in Q6. rewrite Q6. cbn [bind].
    exists r6. split; [reflexivity|]. rewrite <- app_assoc in HR6. exact HR6.
Qed.

(* ---------- the return of a Lua function (OP_RETURN A B, copyReturnValues) ---------- *)

(* the callee's frame: pre ++ fn :: regs, regs = its registers up to the top; the returned values
   are regs[A ..] (B = 0: up to the top; B > 0: B-1 of them) *)
Definition luaResults (regs : list cell) (A B : Z) : list cell :=
  if B =? 0 then skipn (Z.to_nat A) regs else resizeL (skipn (Z.to_nat A) regs) (B - 1).

Lemma resizeL_le (X : list cell) b n : 0 <= n <= b -> resizeL (resizeL X b) n = resizeL X n.
Proof. intros. pose proof (len_nonneg X). unfold resizeL. pw. Qed.

Lemma resizeL_0 (X : list cell) : resizeL X 0 = [].
Proof. unfold resizeL. destruct X; reflexivity. Qed.

Lemma resizeL_len (X : list cell) : resizeL X (len X) = X.
Proof. pose proof (len_nonneg X). unfold resizeL. pw. Qed.

Lemma resizeN_pre_resizeL (pre Y : list cell) n : 0 <= n ->
  resizeN (pre ++ resizeL Y n) (len pre + n) = pre ++ resizeL Y n.
Proof. intros. pose proof (len_nonneg pre). pose proof (len_nonneg Y). unfold resizeN, resizeL. pw. Qed.

Lemma fillNil_tail (pre X : list cell) n b : 0 <= b <= n ->
  fillNilL (pre ++ resizeL X n) (len pre + b) (n - b) = pre ++ resizeL (resizeL X b) n.
Proof. intros. pose proof (len_nonneg pre). pose proof (len_nonneg X). unfold fillNilL, resizeL. pw. Qed.

Lemma fillNil_all (pre rest : list cell) n : 0 <= n ->
  fillNilL (pre ++ rest) (len pre) n = pre ++ resizeL [] n.
Proof. intros. pose proof (len_nonneg pre). pose proof (len_nonneg rest). unfold fillNilL, resizeL. pw. Qed.

Lemma copy_down_list (pre : list cell) fn (regs : list cell) A n : 0 <= A <= len regs -> 0 <= n ->
  firstn (Z.to_nat (len pre)) (pre ++ fn :: regs) ++
  resizeL (skipn (Z.to_nat (len pre + 1 + A)) (pre ++ fn :: regs)) n = pre ++ resizeL (skipn (Z.to_nat A) regs) n.
Proof. intros. pose proof (len_nonneg pre). unfold resizeL. pw. Qed.

Lemma lua_results_lemma : forall r pre fn regs A B wanted lim,
  Rr r (pre ++ fn :: regs) lim -> 0 <= A -> 0 <= B -> -1 <= wanted ->
  A + Z.max 0 (B - 1) <= len regs ->
  len pre + wanted <= lim ->
  exists r', luaReturn r (len pre + 1) A B (len pre) wanted = Ok r' /\
             Rr r' (pre ++ adjust wanted (luaResults regs A B)) lim.
Proof.
  intros r pre fn regs A B wanted lim HR HA HB Hw HAB Hfit.
  pose proof (len_nonneg pre) as Hp0. pose proof (len_nonneg regs) as Hr0.
  pose proof HR as [Ht Hcap Hlc _ Hlim _].
  assert (HL : len (pre ++ fn :: regs) = len pre + 1 + len regs) by (rd_norm; lia).
  set (res := luaResults regs A B).
  assert (Hres : len res = if B =? 0 then len regs - A else B - 1).
  { unfold res, luaResults, resizeL. destruct (B =? 0) eqn:E; rd_norm; lia. }
  (* the count copyReturnValues is asked for *)
  set (n := if wanted =? -1 then len res else wanted).
  assert (Hn0 : 0 <= n) by (unfold n; destruct (wanted =? -1) eqn:?; destruct (B =? 0) eqn:?; lia).
  assert (Hnl : len pre + n <= lim) by (unfold n; destruct (wanted =? -1) eqn:?; destruct (B =? 0) eqn:?; lia).
  (* copyReturnValues leaves pre ++ resizeL res n *)
  assert (Hcopy : exists r1, copyReturnValues r (len pre) (len pre + 1 + A) n B = Ok r1 /\
                             Rr r1 (pre ++ resizeL res n) lim).
  { unfold copyReturnValues. destruct (B =? 1) eqn:EB1.
    - assert (B = 1) by lia. subst B.
      destruct (FillNil_ok r _ lim (len pre) n HR) as (r1 & Q1 & HR1); try lia.
      exists r1. split; [exact Q1|]. rewrite fillNil_all in HR1 by lia.
      replace (resizeL res n) with (resizeL [] n); [exact HR1|].
      unfold res, luaResults. replace (1 =? 0) with false by reflexivity. replace (1 - 1) with 0 by lia.
      rewrite resizeL_0. reflexivity.
    - destruct (CopyRange_ok r _ lim (len pre) (len pre + 1 + A) (-1) n HR) as (r1 & Q1 & HR1); try lia.
      rewrite Q1. cbn [bind]. rewrite copyRangeL_down in HR1 by lia. rewrite copy_down_list in HR1 by lia.
      destruct ((B >? 1) && (n >? B - 1)) eqn:E.
      + assert (Hlen1 : len (pre ++ resizeL (skipn (Z.to_nat A) regs) n) = len pre + n) by (unfold resizeL; rd_norm; lia).
        destruct (FillNil_ok r1 _ lim (len pre + B - 1) (n - (B - 1)) HR1) as (r2 & Q2 & HR2); try lia.
        exists r2. split; [exact Q2|].
        replace (len pre + B - 1) with (len pre + (B - 1)) in HR2 by lia. rewrite fillNil_tail in HR2 by lia.
        unfold res, luaResults. destruct (B =? 0) eqn:E0; [lia|]. exact HR2.
      + exists r1. split; [reflexivity|]. unfold res, luaResults. destruct (B =? 0) eqn:E0; [exact HR1|].
        rewrite resizeL_le by lia. exact HR1. }
  destruct Hcopy as (r1 & Q1 & HR1).
  unfold luaReturn, adjust, MultRet. fold res.
  replace (if B =? 0 then top r - (len pre + 1 + A) else B - 1) with (len res) by (rewrite Hres; destruct (B =? 0); lia).
  fold n. rewrite Q1. cbn [bind].
  destruct (wanted =? -1) eqn:E.
  - exists r1. split; [reflexivity|]. unfold n in HR1. rewrite resizeL_len in HR1. exact HR1.
  - unfold n in *.
    destruct (SetTop_ok r1 _ lim (len pre + wanted) HR1) as (r2 & Q2 & HR2); [lia|].
    exists r2. split; [exact Q2|]. rewrite resizeN_pre_resizeL in HR2 by lia. exact HR2.
Qed.
