(* Proofs about Stack/CallFrames.v: both call-frame stack implementations refine the bounded list
   stack for every history inside the domain; option normalisation. *)
From GL Require Import Stack.CallFrames.
From Coq Require Import Lia ZifyBool.
Ltac Zify.zify_post_hook ::= Z.div_mod_to_equations.

(* ---------------------------------------------------------------------------------------------- *)
(* list updates                                                                                   *)

Lemma updF_length {A} (l : list A) n x : length (updF l n x) = length l.
Proof. revert n; induction l as [|h t IH]; intros [|n]; simpl; auto. Qed.

Lemma updF_nth_same {A} (l : list A) n x : (n < length l)%nat -> nth_error (updF l n x) n = Some x.
Proof. revert n; induction l as [|h t IH]; intros [|n] H; simpl in *; try lia; auto. apply IH; lia. Qed.

Lemma updF_nth_other {A} (l : list A) n m x : n <> m -> nth_error (updF l n x) m = nth_error l m.
Proof.
  revert n m; induction l as [|h t IH]; intros [|n] [|m] H; simpl; auto; try congruence.
Qed.

Lemma nth_error_firstn_lt {A} (l : list A) n i : (i < n)%nat -> nth_error (firstn n l) i = nth_error l i.
Proof.
  revert n i; induction l as [|h t IH]; intros [|n] [|i] H; simpl; auto; try lia. apply IH; lia.
Qed.

Lemma len_updZ {A} (l : list A) i x : len (updZ l i x) = len l.
Proof. unfold updZ, len. destruct (i <? 0); auto. now rewrite updF_length. Qed.

Lemma len_nonneg {A} (l : list A) : 0 <= len l.
Proof. unfold len; lia. Qed.

Lemma len_app {A} (a b : list A) : len (a ++ b) = len a + len b.
Proof. unfold len. rewrite app_length. lia. Qed.

Lemma len_firstn {A} (l : list A) n : 0 <= n <= len l -> len (firstn (Z.to_nat n) l) = n.
Proof. unfold len. intros. rewrite firstn_length. lia. Qed.

Lemma nthF_updZ_same l i x : 0 <= i < len l -> nthF (updZ l i x) i = Some x.
Proof.
  unfold nthF, updZ, len. intros. destruct (i <? 0) eqn:E; try lia.
  apply updF_nth_same. lia.
Qed.

Lemma nthF_updZ_other l i j x : i <> j -> nthF (updZ l i x) j = nthF l j.
Proof.
  unfold nthF, updZ. intros. destruct (j <? 0) eqn:Ej; auto. destruct (i <? 0) eqn:Ei; auto.
  apply updF_nth_other. lia.
Qed.

Lemma lframe_app_old l t i : 0 <= i < len l -> lframe (l ++ [t]) i = lframe l i.
Proof.
  unfold lframe, len. intros. destruct (i <? 0) eqn:E; try lia.
  rewrite nth_error_app1 by lia. reflexivity.
Qed.

Lemma lframe_app_new l t : lframe (l ++ [t]) (len l) = Some (mkFrame t (len l)).
Proof.
  unfold lframe, len. destruct (Z.of_nat (length l) <? 0) eqn:E; try lia.
  rewrite Nat2Z.id. rewrite nth_error_app2 by lia. now rewrite Nat.sub_diag.
Qed.

Lemma lframe_firstn l n i : 0 <= i < n -> n <= len l -> lframe (firstn (Z.to_nat n) l) i = lframe l i.
Proof.
  unfold lframe, len. intros. destruct (i <? 0) eqn:E; try lia.
  rewrite nth_error_firstn_lt by lia. reflexivity.
Qed.

Lemma lframe_some l i : 0 <= i < len l -> exists t, lframe l i = Some (mkFrame t i).
Proof.
  unfold lframe, len. intros. destruct (i <? 0) eqn:E; try lia.
  destruct (nth_error l (Z.to_nat i)) eqn:N; eauto.
  apply nth_error_None in N. lia.
Qed.

Lemma firstn_all_len {A} (l : list A) : firstn (Z.to_nat (len l)) l = l.
Proof. unfold len. rewrite Nat2Z.id. apply firstn_all. Qed.

(* ---------------------------------------------------------------------------------------------- *)
(* fixed stack                                                                                    *)


Lemma Rf_new size : 0 <= size -> Rf (newFixed size) [] /\ len (farr (newFixed size)) = size.
Proof.
  intros. unfold newFixed, Rf, len; simpl. rewrite repeat_length. repeat split; try lia.
Qed.

Lemma fstep_sim c s l o :
  Rf s l -> len (farr s) = c -> sop_dom c l o = true ->
  snd (fstep s o) = snd (lstep c l o) /\ Rf (fst (fstep s o)) (fst (lstep c l o)) /\
  len (farr (fst (fstep s o))) = c.
Proof.
  intros (Hsp & Hle & Hfr) Hc Hd. pose proof (len_nonneg l) as Hl0.
  destruct o as [tag dirty| | |i|n| | |]; simpl in *.
  - (* Push *)
    assert (len l < c) by lia.
    destruct ((fsp s <? 0) || (fsp s >=? len (farr s))) eqn:E; [lia|]. simpl.
    split; [reflexivity|]. split; [|now rewrite len_updZ].
    unfold Rf; simpl. rewrite len_updZ, len_app. change (len [tag]) with 1.
    repeat split; try lia. intros i Hi.
    destruct (Z.eq_dec i (len l)) as [->|Hne].
    + rewrite Hsp. rewrite nthF_updZ_same by lia. now rewrite lframe_app_new.
    + rewrite nthF_updZ_other by lia. rewrite lframe_app_old by lia. apply Hfr; lia.
  - (* Pop *)
    assert (0 < len l) by lia.
    rewrite Hsp. rewrite (Hfr (len l - 1)) by lia.
    destruct (lframe_some l (len l - 1)) as [t Ht]; [lia|]. rewrite Ht. simpl.
    split; [reflexivity|]. split; [|assumption].
    unfold Rf; simpl. rewrite len_firstn by lia. repeat split; try lia.
    intros i Hi. rewrite lframe_firstn by lia. apply Hfr; lia.
  - (* Last *)
    rewrite Hsp. destruct (len l =? 0) eqn:E.
    + simpl. split; [|split; [split; auto|auto]].
      unfold lframe. destruct (len l - 1 <? 0) eqn:E2; [reflexivity|lia].
    + rewrite (Hfr (len l - 1)) by lia.
      destruct (lframe_some l (len l - 1)) as [t Ht]; [lia|]. rewrite Ht. simpl.
      split; [reflexivity|]. split; [split; auto|auto].
  - (* At *)
    rewrite (Hfr i) by lia. destruct (lframe_some l i) as [t Ht]; [lia|]. rewrite Ht. simpl.
    split; [reflexivity|]. split; [split; auto|auto].
  - (* SetSp *)
    split; [reflexivity|]. split; [|assumption].
    unfold Rf; simpl. rewrite len_firstn by lia. repeat split; try lia.
    intros i Hi. rewrite lframe_firstn by lia. apply Hfr; lia.
  - split; [now rewrite Hsp|]. split; [split; auto|auto].
  - split; [now rewrite Hsp|]. split; [split; auto|auto].
  - split; [rewrite Hsp, Hc; reflexivity|]. split; [split; auto|auto].
Qed.

Lemma frun_sim c : forall ops s l,
  Rf s l -> len (farr s) = c -> ldom c l ops = true ->
  frun s ops = lrun c l ops /\ Rf (ffinal s ops) (lfinal c l ops).
Proof.
  induction ops as [|o t IH]; intros s l HR Hc Hd; simpl in *; [auto|].
  apply andb_prop in Hd as [Hd1 Hd2].
  destruct (fstep_sim c s l o HR Hc Hd1) as (Hobs & HR' & Hc').
  destruct (fstep s o) as [s1 b] eqn:Es. destruct (lstep c l o) as [l1 b'] eqn:El. simpl in *.
  subst b'. destruct (IH s1 l1 HR' Hc' Hd2) as [Hr Hf]. now rewrite Hr.
Qed.

Lemma fixed_refines_stack_lemma : forall size ops,
  0 <= size -> ldom size [] ops = true ->
  frun (newFixed size) ops = lrun size [] ops /\
  Rf (ffinal (newFixed size) ops) (lfinal size [] ops).
Proof.
  intros size ops Hs Hd. destruct (Rf_new size Hs) as [HR Hc].
  exact (frun_sim size ops _ _ HR Hc Hd).
Qed.

(* ---------------------------------------------------------------------------------------------- *)
(* auto-growing stack                                                                             *)

Lemma seg_raw s i g : segRaw (segs s) i = Some (Some g) -> seg s i = Some g.
Proof. unfold seg, segRaw. destruct (i <? 0); [discriminate|]. now intros ->. Qed.

Lemma segRaw_upd_same sg i x : 0 <= i < len sg -> segRaw (updZ sg i x) i = Some x.
Proof.
  unfold segRaw, updZ, len. intros. destruct (i <? 0) eqn:E; try lia. apply updF_nth_same; lia.
Qed.

Lemma segRaw_upd_other sg i j x : i <> j -> segRaw (updZ sg i x) j = segRaw sg j.
Proof.
  unfold segRaw, updZ. intros. destruct (j <? 0) eqn:Ej; auto. destruct (i <? 0) eqn:Ei; auto.
  apply updF_nth_other; lia.
Qed.

Lemma Ra_new maxSize d0 :
  1 <= maxSize -> len d0 = FramesPerSegment ->
  Ra (newAuto maxSize d0) [] /\ FramesPerSegment * nseg (newAuto maxSize d0) = autoCap maxSize.
Proof.
  intros Hm Hd. unfold newAuto, autoCap, nseg, FramesPerSegment in *. change (8 - 1) with 7 in *. simpl segs.
  assert (Hn : 1 <= (maxSize + 7) / 8) by lia.
  assert (Hlen : len (Some d0 :: repeat (@None (list frame)) (Z.to_nat ((maxSize + 7) / 8 - 1))) = (maxSize + 7) / 8).
  { unfold len. simpl length. rewrite repeat_length. lia. }
  split; [|simpl segs; rewrite ?Hlen; lia].
  constructor; simpl; unfold nseg, FramesPerSegment; simpl segs; rewrite ?Hlen; try lia.
  - unfold len; simpl; lia.
  - intros i Hi. assert (i = 0) by lia. subst. exists d0. split; [reflexivity|assumption].
  - intros i Hi. unfold segRaw. destruct (i <? 0) eqn:E; try lia.
    destruct (Z.to_nat i) as [|k] eqn:Ek; try lia. simpl.
    rewrite nth_error_repeat; [reflexivity|lia].
  - intros j Hj. unfold len in Hj; simpl in Hj; lia.
Qed.

Lemma unwind_spec : forall fuel sg idx desired,
  0 <= desired <= idx -> idx - desired <= Z.of_nat fuel -> idx < len sg ->
  let '(sg', idx') := unwindSegs sg idx desired fuel in
  idx' = desired /\ len sg' = len sg /\
  (forall i, i <= desired -> segRaw sg' i = segRaw sg i) /\
  (forall i, desired < i <= idx -> segRaw sg' i = Some None) /\
  (forall i, idx < i -> segRaw sg' i = segRaw sg i).
Proof.
  induction fuel as [|k IH]; intros sg idx desired Hd Hf Hl; simpl.
  - assert (idx = desired) by lia. subst. repeat split; auto; intros; lia.
  - destruct (idx <=? desired) eqn:E.
    + assert (idx = desired) by lia. subst. repeat split; auto; intros; lia.
    + specialize (IH (updZ sg idx None) (idx - 1) desired).
      destruct (unwindSegs (updZ sg idx None) (idx - 1) desired k) as [sg' idx'].
      rewrite len_updZ in IH. destruct IH as (H1 & H2 & H3 & H4 & H5); try lia.
      repeat split; auto.
      * intros i Hi. rewrite H3 by lia. apply segRaw_upd_other; lia.
      * intros i Hi. destruct (Z.eq_dec i idx) as [->|Hne].
        -- rewrite H5 by lia. apply segRaw_upd_same; lia.
        -- apply H4; lia.
      * intros i Hi. rewrite H5 by lia. apply segRaw_upd_other; lia.
Qed.

Ltac fps := unfold FramesPerSegment in *.

Ltac sm := cbn [segs segIdx segSp fst snd].

Lemma astep_sim c s l o :
  Ra s l -> FramesPerSegment * nseg s = c -> sop_dom c l o = true ->
  snd (astep s o) = snd (lstep c l o) /\ Ra (fst (astep s o)) (fst (lstep c l o)) /\
  nseg (fst (astep s o)) = nseg s.
Proof.
  intros HR Hc Hd. pose proof (len_nonneg l) as Hl0.
  destruct HR as [Hn Hidx Hsp Hlen Hlive Hdead Hfr].
  destruct o as [tag dirty| | |i|n| | |]; simpl in Hd |- *.
  - (* Push *)
    apply andb_prop in Hd as [Hd1 Hd2].
    assert (Hlt : len l < c) by lia. assert (Hdl : len dirty = FramesPerSegment) by lia.
    unfold aPush. destruct (segSp s >=? FramesPerSegment) eqn:E.
    + assert (Hs8 : segSp s = FramesPerSegment) by lia.
      assert (Hi : segIdx s < nseg s - 1) by (fps; lia).
      destruct (segIdx s <? nseg s - 1) eqn:E2; [|lia]. sm.
      split; [reflexivity|]. split; [|unfold nseg; sm; now rewrite len_updZ].
      constructor; sm; unfold nseg in *; sm; rewrite ?len_updZ, ?len_app; change (len [tag]) with 1; try (fps; lia).
      * intros i Hi2. destruct (Z.eq_dec i (segIdx s + 1)) as [->|Hne].
        -- eexists. split; [apply segRaw_upd_same; lia|]. now rewrite len_updZ.
        -- rewrite segRaw_upd_other by lia. apply Hlive; lia.
      * intros i Hi2. rewrite segRaw_upd_other by lia. apply Hdead; lia.
      * intros j Hj. destruct (Z.eq_dec j (len l)) as [->|Hne].
        -- assert (Hq : len l / FramesPerSegment = segIdx s + 1) by (fps; lia).
           assert (Hm : len l mod FramesPerSegment = 0) by (fps; lia).
           rewrite Hq, Hm. eexists. split; [apply segRaw_upd_same; lia|].
           rewrite nthF_updZ_same by (fps; lia). rewrite lframe_app_new. f_equal. f_equal. fps; lia.
        -- destruct (Hfr j) as (g & Hg & Hgf); [lia|].
           assert (j / FramesPerSegment <= segIdx s) by (fps; lia).
           exists g. split; [rewrite segRaw_upd_other by lia; exact Hg|].
           rewrite lframe_app_old by lia. exact Hgf.
    + destruct (Hlive (segIdx s)) as (g & Hg & Hgl); [lia|].
      rewrite (seg_raw _ _ _ Hg). sm.
      split; [reflexivity|]. split; [|unfold nseg; sm; now rewrite len_updZ].
      constructor; sm; unfold nseg in *; sm; rewrite ?len_updZ, ?len_app; change (len [tag]) with 1; try (fps; lia).
      * intros i Hi2. destruct (Z.eq_dec i (segIdx s)) as [->|Hne].
        -- eexists. split; [apply segRaw_upd_same; lia|]. now rewrite len_updZ.
        -- rewrite segRaw_upd_other by lia. apply Hlive; lia.
      * intros i Hi2. rewrite segRaw_upd_other by lia. apply Hdead; lia.
      * intros j Hj. destruct (Z.eq_dec j (len l)) as [->|Hne].
        -- assert (Hq : len l / FramesPerSegment = segIdx s) by (fps; lia).
           assert (Hm : len l mod FramesPerSegment = segSp s) by (fps; lia).
           rewrite Hq, Hm. eexists. split; [apply segRaw_upd_same; lia|].
           rewrite nthF_updZ_same by (fps; lia). rewrite lframe_app_new. f_equal. f_equal. fps; lia.
        -- destruct (Hfr j) as (g' & Hg' & Hgf); [lia|].
           rewrite lframe_app_old by lia.
           destruct (Z.eq_dec (j / FramesPerSegment) (segIdx s)) as [Heq|Hne2].
           ++ rewrite Heq in *. rewrite Hg in Hg'. inversion Hg'; subst g'.
              eexists. split; [apply segRaw_upd_same; lia|].
              rewrite nthF_updZ_other by (fps; lia). exact Hgf.
           ++ exists g'. split; [rewrite segRaw_upd_other by lia; exact Hg'|exact Hgf].
  - (* Pop *)
    assert (Hpos : 0 < len l) by lia.
    unfold aPop. destruct (segSp s =? 0) eqn:E.
    + assert (Hs0 : segSp s = 0) by lia.
      destruct (segIdx s =? 0) eqn:E2; [fps; lia|].
      assert (Hi : 0 < segIdx s) by lia.
      destruct (Hfr (len l - 1)) as (g & Hg & Hgf); [lia|].
      assert (Hq : (len l - 1) / FramesPerSegment = segIdx s - 1) by (fps; lia).
      assert (Hm : (len l - 1) mod FramesPerSegment = FramesPerSegment - 1) by (fps; lia).
      rewrite Hq, Hm in *.
      assert (Hg1 : seg (mkA (updZ (segs s) (segIdx s) None) (segIdx s - 1) (FramesPerSegment - 1)) (segIdx s - 1) = Some g).
      { apply seg_raw. sm. rewrite segRaw_upd_other by lia. exact Hg. }
      cbn [segIdx segSp]. rewrite Hg1, Hgf.
      destruct (lframe_some l (len l - 1)) as [t Ht]; [lia|]. rewrite Ht. sm.
      split; [reflexivity|]. split; [|unfold nseg; sm; now rewrite len_updZ].
      constructor; sm; unfold nseg in *; sm; rewrite ?len_updZ; rewrite ?len_firstn by lia; try (fps; lia).
      * intros i Hi2. rewrite segRaw_upd_other by lia. apply Hlive; lia.
      * intros i Hi2. destruct (Z.eq_dec i (segIdx s)) as [->|Hne].
        -- apply segRaw_upd_same; lia.
        -- rewrite segRaw_upd_other by lia. apply Hdead; lia.
      * intros j Hj. destruct (Hfr j) as (g' & Hg' & Hgf'); [lia|].
        assert (j / FramesPerSegment < segIdx s) by (fps; lia).
        exists g'. split; [rewrite segRaw_upd_other by lia; exact Hg'|].
        rewrite lframe_firstn by lia. exact Hgf'.
    + destruct (Hfr (len l - 1)) as (g & Hg & Hgf); [lia|].
      assert (Hq : (len l - 1) / FramesPerSegment = segIdx s) by (fps; lia).
      assert (Hm : (len l - 1) mod FramesPerSegment = segSp s - 1) by (fps; lia).
      rewrite Hq, Hm in *. rewrite (seg_raw _ _ _ Hg). cbn [segSp]. rewrite Hgf.
      destruct (lframe_some l (len l - 1)) as [t Ht]; [lia|]. rewrite Ht. sm.
      split; [reflexivity|]. split; [|reflexivity].
      constructor; sm; unfold nseg in *; sm; rewrite ?len_firstn by lia; try (fps; lia); auto.
      intros j Hj. destruct (Hfr j) as (g' & Hg' & Hgf'); [lia|].
      exists g'. split; [exact Hg'|]. rewrite lframe_firstn by lia. exact Hgf'.
  - (* Last *)
    unfold aLast. split; [|split; [constructor; auto|reflexivity]].
    destruct (segSp s =? 0) eqn:E.
    + destruct (segIdx s =? 0) eqn:E2.
      * assert (len l = 0) by (fps; lia). unfold lframe.
        destruct (len l - 1 <? 0) eqn:E3; [reflexivity|lia].
      * destruct (Hfr (len l - 1)) as (g & Hg & Hgf); [fps; lia|].
        assert (Hq : (len l - 1) / FramesPerSegment = segIdx s - 1) by (fps; lia).
        assert (Hm : (len l - 1) mod FramesPerSegment = FramesPerSegment - 1) by (fps; lia).
        rewrite Hq, Hm in *. rewrite (seg_raw _ _ _ Hg), Hgf.
        destruct (lframe_some l (len l - 1)) as [t Ht]; [fps; lia|]. now rewrite Ht.
    + destruct (Hfr (len l - 1)) as (g & Hg & Hgf); [fps; lia|].
      assert (Hq : (len l - 1) / FramesPerSegment = segIdx s) by (fps; lia).
      assert (Hm : (len l - 1) mod FramesPerSegment = segSp s - 1) by (fps; lia).
      rewrite Hq, Hm in *. rewrite (seg_raw _ _ _ Hg), Hgf.
      destruct (lframe_some l (len l - 1)) as [t Ht]; [fps; lia|]. now rewrite Ht.
  - (* At *)
    unfold aAt. split; [|split; [constructor; auto|reflexivity]].
    destruct (Hfr i) as (g & Hg & Hgf); [lia|]. rewrite (seg_raw _ _ _ Hg), Hgf.
    destruct (lframe_some l i) as [t Ht]; [lia|]. now rewrite Ht.
  - (* SetSp *)
    split; [reflexivity|].
    unfold aSetSp, aSp. destruct (n >=? segSp s + segIdx s * FramesPerSegment) eqn:E.
    + assert (n = len l) by lia. subst n. rewrite firstn_all_len.
      split; [constructor; auto|reflexivity].
    + assert (Hnl : n < len l) by lia.
      assert (Hdes : 0 <= n / FramesPerSegment <= segIdx s) by (fps; lia).
      pose proof (unwind_spec (Z.to_nat (segIdx s)) (segs s) (segIdx s) (n / FramesPerSegment)) as U.
      destruct (unwindSegs (segs s) (segIdx s) (n / FramesPerSegment) (Z.to_nat (segIdx s))) as [sg' idx'].
      destruct U as (U1 & U2 & U3 & U4 & U5); try lia; [unfold nseg in *; lia|]. subst idx'.
      split; [|unfold nseg; sm; now rewrite U2].
      constructor; sm; unfold nseg in *; sm; rewrite ?U2; rewrite ?len_firstn by lia; try (fps; lia).
      * intros i Hi. rewrite U3 by lia. apply Hlive; lia.
      * intros i Hi. destruct (Z_le_gt_dec i (segIdx s)).
        -- apply U4; lia.
        -- rewrite U5 by lia. apply Hdead; lia.
      * intros j Hj. destruct (Hfr j) as (g & Hg & Hgf); [lia|].
        assert (j / FramesPerSegment <= n / FramesPerSegment) by (fps; lia).
        exists g. split; [rewrite U3 by lia; exact Hg|]. rewrite lframe_firstn by lia. exact Hgf.
  - (* Sp *)
    split; [unfold aSp; f_equal; lia|]. split; [constructor; auto|reflexivity].
  - (* IsEmpty *)
    split; [f_equal; fps; lia|]. split; [constructor; auto|reflexivity].
  - (* IsFull *)
    split; [unfold aIsFull; f_equal; fps; lia|]. split; [constructor; auto|reflexivity].
Qed.

Lemma arun_sim c : forall ops s l,
  Ra s l -> FramesPerSegment * nseg s = c -> ldom c l ops = true ->
  arun_ s ops = lrun c l ops /\ Ra (afinal s ops) (lfinal c l ops).
Proof.
  induction ops as [|o t IH]; intros s l HR Hc Hd; simpl in *; [auto|].
  apply andb_prop in Hd as [Hd1 Hd2].
  destruct (astep_sim c s l o HR Hc Hd1) as (Hobs & HR' & Hn').
  destruct (astep s o) as [s1 b] eqn:Es. destruct (lstep c l o) as [l1 b'] eqn:El. simpl in *.
  subst b'. assert (Hc' : FramesPerSegment * nseg s1 = c) by (rewrite Hn'; exact Hc).
  destruct (IH s1 l1 HR' Hc' Hd2) as [Hr Hf]. now rewrite Hr.
Qed.

Lemma auto_refines_stack_lemma : forall maxSize d0 ops,
  1 <= maxSize -> len d0 = FramesPerSegment -> ldom (autoCap maxSize) [] ops = true ->
  arun_ (newAuto maxSize d0) ops = lrun (autoCap maxSize) [] ops /\
  Ra (afinal (newAuto maxSize d0) ops) (lfinal (autoCap maxSize) [] ops).
Proof.
  intros maxSize d0 ops Hm Hd0 Hd. destruct (Ra_new maxSize d0 Hm Hd0) as [HR Hc].
  exact (arun_sim _ ops _ _ HR Hc Hd).
Qed.

(* ---------------------------------------------------------------------------------------------- *)
(* the two defects of the pinned tree, on the transcriptions of the old code                      *)

Definition eight := map (fun i => SPush i (repeat (mkFrame 9 9) 8)) [1; 2; 3; 4; 5; 6; 7; 8].

(* C12-2: SetSp(8) at depth 8 (segment 1 not allocated) made Sp = 0 *)
Lemma old_setsp_refuted_lemma :
  exists s, Ra s [1; 2; 3; 4; 5; 6; 7; 8] /\ aSp s = 8 /\ aSp (aSetSp_old s 8) = 0.
Proof.
  exists (afinal (newAuto 64 (repeat (mkFrame 9 9) 8)) eight). split.
  - assert (H := auto_refines_stack_lemma 64 (repeat (mkFrame 9 9) 8) eight).
    destruct H as [_ H]; [lia|reflexivity|reflexivity|]. exact H.
  - split; vm_compute; reflexivity.
Qed.

(* C12-1: the old IsFull was false on a full stack (capacity 8) *)
Lemma old_isfull_refuted_lemma :
  exists s, Ra s [1; 2; 3; 4; 5; 6; 7; 8] /\ aSp s = autoCap 8 /\ aIsFull_old s = false /\ aIsFull s = true.
Proof.
  exists (afinal (newAuto 8 (repeat (mkFrame 9 9) 8)) eight). split.
  - assert (H := auto_refines_stack_lemma 8 (repeat (mkFrame 9 9) 8) eight).
    destruct H as [_ H]; [lia|reflexivity|reflexivity|]. exact H.
  - repeat split; vm_compute; reflexivity.
Qed.

(* ---------------------------------------------------------------------------------------------- *)
(* option normalisation                                                                           *)


Lemma options_normalised_lemma : forall o,
  normal (normalise o) /\
  normalise (normalise o) = normalise o /\
  (normal o -> 0 <= oRegistryMaxSize o -> normalise o = o) /\
  oMinimize (normalise o) = oMinimize o /\
  (1 <= oCallStackSize o -> oCallStackSize (normalise o) = oCallStackSize o) /\
  (128 <= oRegistrySize o -> oRegistrySize (normalise o) = oRegistrySize o) /\
  (128 <= oRegistrySize o <= oRegistryMaxSize o -> oRegistryMaxSize (normalise o) = oRegistryMaxSize o).
Proof.
  intros [css rs mx gs mn]. unfold normalise, normal, dCallStackSize, dRegistrySize, dRegistryGrowStep; simpl.
  destruct (Z.ltb_spec css 1); destruct (Z.ltb_spec rs 128); simpl;
    repeat match goal with
           | |- context [?a <? ?b] => destruct (Z.ltb_spec a b); simpl
           end;
    repeat split; intros;
    repeat match goal with
           | H : _ /\ _ |- _ => destruct H
           | H : _ \/ _ |- _ => destruct H
           end; simpl in *; try lia; try reflexivity; try (f_equal; lia);
    try (right; lia); try (left; lia).
Qed.
