(* Pointwise facts about the cell arrays of Stack/Registry.v (rd, fill, upd, firstn, app, ...). *)
From GL Require Import Stack.Registry.
From Coq Require Import Lia ZifyBool.

Lemma len_nonneg {A} (l : list A) : 0 <= len l.
Proof. unfold len; lia. Qed.

Lemma len_app {A} (a b : list A) : len (a ++ b) = len a + len b.
Proof. unfold len. rewrite app_length. lia. Qed.

Lemma len_cons {A} (x : A) l : len (x :: l) = 1 + len l.
Proof. unfold len. simpl length. lia. Qed.

Lemma len_nil {A} : len (@nil A) = 0.
Proof. reflexivity. Qed.

Lemma len_repeat {A} (c : A) n : len (repeat c n) = Z.of_nat n.
Proof. unfold len. now rewrite repeat_length. Qed.

Lemma len_firstn {A} (l : list A) n : len (firstn (Z.to_nat n) l) = Z.min (Z.max 0 n) (len l).
Proof. unfold len. rewrite firstn_length. lia. Qed.

Lemma len_skipn {A} (l : list A) n : len (skipn (Z.to_nat n) l) = len l - Z.min (Z.max 0 n) (len l).
Proof. unfold len. rewrite skipn_length. lia. Qed.

Lemma len_fresh n : len (fresh n) = Z.max 0 n.
Proof. unfold fresh. rewrite len_repeat. lia. Qed.

Lemma len_fillr a : forall i0 lo hi c, len (fillr a i0 lo hi c) = len a.
Proof. induction a as [|x t IH]; intros; simpl; auto. rewrite !len_cons, IH. reflexivity. Qed.

Lemma len_fill a lo hi c : len (fill a lo hi c) = len a.
Proof. apply len_fillr. Qed.

Lemma len_upd a i c : len (upd a i c) = len a.
Proof. apply len_fill. Qed.

(* ---------- rd ---------- *)

Lemma rd_out a i : i < 0 \/ len a <= i -> rd a i = None.
Proof.
  unfold rd, len. intros [H|H].
  - destruct (i <? 0) eqn:E; [reflexivity|lia].
  - destruct (i <? 0); [reflexivity|]. apply nth_overflow. lia.
Qed.

Lemma rd_cons_0 x a : rd (x :: a) 0 = x.
Proof. reflexivity. Qed.

Lemma rd_cons_S x a i : 0 < i -> rd (x :: a) i = rd a (i - 1).
Proof.
  unfold rd. intros. destruct (i <? 0) eqn:E; [lia|]. destruct (i - 1 <? 0) eqn:E2; [lia|].
  replace (Z.to_nat i) with (S (Z.to_nat (i - 1))) by lia. reflexivity.
Qed.

Lemma rd_fillr a : forall i0 lo hi c i,
  rd (fillr a i0 lo hi c) i =
  if (0 <=? i) && (i <? len a) && (lo <=? i0 + i) && (i0 + i <? hi) then c else rd a i.
Proof.
  induction a as [|x t IH]; intros i0 lo hi c i; cbn [fillr].
  - change (len (@nil cell)) with 0. destruct ((0 <=? i) && (i <? 0)) eqn:E; [lia|]. reflexivity.
  - rewrite len_cons. destruct (Z.eq_dec i 0) as [->|Hne].
    + rewrite !rd_cons_0. pose proof (len_nonneg t). rewrite Z.add_0_r.
      destruct ((lo <=? i0) && (i0 <? hi)) eqn:E;
        destruct ((0 <=? 0) && (0 <? 1 + len t) && (lo <=? i0) && (i0 <? hi)) eqn:E2; try reflexivity; lia.
    + destruct (Z_lt_dec i 0).
      * rewrite !(rd_out _ i) by (left; lia).
        destruct ((0 <=? i) && (i <? 1 + len t) && (lo <=? i0 + i) && (i0 + i <? hi)) eqn:E; [lia|reflexivity].
      * rewrite !rd_cons_S by lia. rewrite IH.
        destruct ((0 <=? i - 1) && (i - 1 <? len t) && (lo <=? i0 + 1 + (i - 1)) && (i0 + 1 + (i - 1) <? hi)) eqn:E;
          destruct ((0 <=? i) && (i <? 1 + len t) && (lo <=? i0 + i) && (i0 + i <? hi)) eqn:E2; try reflexivity; lia.
Qed.

Lemma rd_fill a lo hi c i :
  rd (fill a lo hi c) i = if (0 <=? i) && (i <? len a) && (lo <=? i) && (i <? hi) then c else rd a i.
Proof. unfold fill. rewrite rd_fillr. reflexivity. Qed.

Lemma rd_upd a p c i :
  rd (upd a p c) i = if (0 <=? i) && (i <? len a) && (i =? p) then c else rd a i.
Proof.
  unfold upd. rewrite rd_fill.
  destruct ((0 <=? i) && (i <? len a) && (p <=? i) && (i <? p + 1)) eqn:E;
    destruct ((0 <=? i) && (i <? len a) && (i =? p)) eqn:E2; try reflexivity; lia.
Qed.

Lemma rd_app a b i : 0 <= i -> rd (a ++ b) i = if i <? len a then rd a i else rd b (i - len a).
Proof.
  unfold rd, len. intros. destruct (i <? 0) eqn:E; [lia|].
  destruct (i <? Z.of_nat (length a)) eqn:E2.
  - apply app_nth1. lia.
  - destruct (i - Z.of_nat (length a) <? 0) eqn:E3; [lia|].
    rewrite app_nth2 by lia. f_equal. lia.
Qed.

Lemma rd_firstn a n i : rd (firstn (Z.to_nat n) a) i = if i <? n then rd a i else None.
Proof.
  destruct (Z_lt_dec i 0).
  - rewrite !(rd_out _ i) by (left; lia). destruct (i <? n); reflexivity.
  - destruct (i <? n) eqn:E.
    + unfold rd. destruct (i <? 0) eqn:E0; [lia|].
      assert (Hk : (Z.to_nat i < Z.to_nat n)%nat) by lia.
      revert Hk. generalize (Z.to_nat n) (Z.to_nat i). clear. intros m k. revert a m.
      induction k as [|k IH]; intros [|x a] [|m] Hk; simpl; auto; try lia. apply IH. lia.
    + apply rd_out. right. rewrite len_firstn. lia.
Qed.

Lemma rd_skipn a n i : 0 <= n -> 0 <= i -> rd (skipn (Z.to_nat n) a) i = rd a (i + n).
Proof.
  unfold rd. intros. destruct (i <? 0) eqn:E; [lia|]. destruct (i + n <? 0) eqn:E2; [lia|].
  replace (Z.to_nat (i + n)) with (Z.to_nat n + Z.to_nat i)%nat by lia.
  generalize (Z.to_nat n) (Z.to_nat i). intros m k. revert a. induction m as [|m IH]; intros [|x a]; simpl; auto.
  destruct k; reflexivity.
Qed.

Lemma rd_repeat (c : cell) n i : rd (repeat c n) i = if (0 <=? i) && (i <? Z.of_nat n) then c else None.
Proof.
  destruct ((0 <=? i) && (i <? Z.of_nat n)) eqn:E.
  - unfold rd. destruct (i <? 0) eqn:E2; [lia|].
    assert (Hk : (Z.to_nat i < n)%nat) by lia. revert Hk. generalize (Z.to_nat i). clear.
    induction n as [|n IH]; intros [|k] Hk; simpl; auto; try lia. apply IH. lia.
  - apply rd_out. rewrite len_repeat. lia.
Qed.

Lemma rd_nil i : rd [] i = None.
Proof. apply rd_out. unfold len; simpl; lia. Qed.

Lemma rd_single (c : cell) i : rd [c] i = if i =? 0 then c else None.
Proof.
  destruct (i =? 0) eqn:E.
  - assert (i = 0) by lia. subst. reflexivity.
  - apply rd_out. unfold len; simpl. lia.
Qed.

(* two cell lists are equal when they have the same length and the same cells *)
Lemma list_eq_rd (a b : list cell) :
  len a = len b -> (forall i, 0 <= i < len a -> rd a i = rd b i) -> a = b.
Proof.
  revert b. induction a as [|x a IH]; intros [|y b] Hl H; try reflexivity;
    try (unfold len in Hl; simpl in Hl; lia).
  rewrite !len_cons in Hl. f_equal.
  - specialize (H 0). rewrite !rd_cons_0 in H. apply H. rewrite len_cons. pose proof (len_nonneg a). lia.
  - apply IH; [lia|]. intros i Hi. specialize (H (i + 1)).
    rewrite !rd_cons_S in H by lia. replace (i + 1 - 1) with i in H by lia. apply H. rewrite len_cons. lia.
Qed.

Lemma firstn_all_len {A} (l : list A) : firstn (Z.to_nat (len l)) l = l.
Proof. unfold len. rewrite Nat2Z.id. apply firstn_all. Qed.

(* ---------- unconditional forms, for rewriting ---------- *)

Lemma rd_cons' (x : cell) a i : rd (x :: a) i = if i =? 0 then x else if 0 <? i then rd a (i - 1) else None.
Proof.
  destruct (i =? 0) eqn:E.
  - assert (i = 0) by lia. subst. reflexivity.
  - destruct (0 <? i) eqn:E2.
    + apply rd_cons_S. lia.
    + apply rd_out. left. lia.
Qed.

Lemma rd_app' a b i : rd (a ++ b) i = if i <? 0 then None else if i <? len a then rd a i else rd b (i - len a).
Proof.
  destruct (i <? 0) eqn:E.
  - apply rd_out. left. lia.
  - apply rd_app. lia.
Qed.

Lemma rd_skipn' a n i : rd (skipn (Z.to_nat n) a) i = if i <? 0 then None else rd a (i + Z.max 0 n).
Proof.
  destruct (i <? 0) eqn:E.
  - apply rd_out. left. lia.
  - destruct (Z_lt_dec n 0).
    + replace (Z.to_nat n) with O by lia. simpl skipn. f_equal. lia.
    + rewrite rd_skipn by lia. f_equal. lia.
Qed.

Ltac kill_len_nil :=
  repeat match goal with
         | |- context [@len ?A (@nil ?B)] => change (@len A (@nil B)) with 0
         | H : context [@len ?A (@nil ?B)] |- _ => change (@len A (@nil B)) with 0 in H
         end.

Ltac rd_norm :=
  kill_len_nil;
  repeat (rewrite ?rd_fill, ?rd_upd, ?rd_firstn, ?rd_repeat, ?rd_app', ?rd_cons', ?rd_skipn', ?rd_nil,
          ?len_fill, ?len_upd, ?len_firstn, ?len_app, ?len_repeat, ?len_cons, ?len_skipn);
  kill_len_nil.

Ltac rd_norm_in H :=
  repeat (rewrite ?len_fill, ?len_upd, ?len_firstn, ?len_app, ?len_repeat, ?len_cons, ?len_skipn in H);
  kill_len_nil.

Ltac cases_if :=
  repeat match goal with |- context [if ?b then _ else _] => destruct b eqn:? end.

(* the same, closing contradictory branches as soon as they appear *)
Ltac cases_if_prune :=
  repeat (match goal with |- context [if ?b then _ else _] => destruct b eqn:? end; try lia).

(* prove an equation between cell lists pointwise *)
Ltac pw :=
  apply list_eq_rd;
  [ rd_norm; try lia
  | let i := fresh "i" in let Hi := fresh "Hi" in
    intros i Hi; rd_norm_in Hi; rd_norm; cases_if_prune; try lia; try reflexivity; try (f_equal; lia) ].

Lemma rd_in_nth (l : list cell) i : 0 <= i < len l -> rd l i = nth (Z.to_nat i) l cNil.
Proof.
  unfold rd, len. intros. destruct (i <? 0) eqn:E; [lia|]. apply nth_indep. lia.
Qed.
