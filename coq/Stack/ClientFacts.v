(* config_independent: a client that stays below the limits gets the same answers from every
   configuration (both stack implementations, any pool, any registry sizing). *)
From GL Require Import Stack.Client Stack.ArrayFacts Stack.RegistryFacts Stack.CallFramesFacts.
From Coq Require Import Lia ZifyBool.

Definition stk_rel (s : stk) (l : list Z) (ci : Z) : Prop :=
  match s with
  | SF f => Rf f l /\ len (farr f) = ci
  | SA a => Ra a l /\ FramesPerSegment * nseg a = ci
  end.

Lemma below_dom c ci l o d :
  sop_below c l o = true -> c <= ci -> len d = FramesPerSegment ->
  sop_dom ci l (redirty d o) = true /\
  lstep ci l (redirty d o) = lstep unbounded l o.
Proof.
  intros Hb Hc Hd. pose proof (CallFramesFacts.len_nonneg l).
  destruct o; simpl in *; try (split; [assumption || lia|reflexivity]).
  split; [reflexivity|]. unfold unbounded. f_equal. f_equal. lia.
Qed.

Lemma stk_step_sim c ci s l o d :
  stk_rel s l ci -> sop_below c l o = true -> c <= ci -> len d = FramesPerSegment ->
  snd (stk_step d s o) = snd (lstep unbounded l o) /\
  stk_rel (fst (stk_step d s o)) (fst (lstep unbounded l o)) ci.
Proof.
  intros HR Hb Hc Hd. destruct s as [f|a]; simpl in HR |- *.
  - destruct HR as [HR Hl].
    (* the fixed stack ignores the dirty segment *)
    assert (Hdom : sop_dom ci l (redirty d o) = true /\ lstep ci l (redirty d o) = lstep unbounded l o)
      by (apply (below_dom c); assumption).
    destruct Hdom as [Hdom Heq].
    assert (Hf : fstep f o = fstep f (redirty d o)) by (destruct o; reflexivity).
    destruct (fstep_sim ci f l (redirty d o) HR Hl Hdom) as (H1 & H2 & H3).
    rewrite Hf. rewrite Heq in *. destruct (fstep f (redirty d o)) as [f' b]. simpl in *. auto.
  - destruct HR as [HR Hl].
    destruct (below_dom c ci l o d Hb Hc Hd) as [Hdom Heq].
    destruct (astep_sim ci a l (redirty d o) HR Hl Hdom) as (H1 & H2 & H3).
    rewrite Heq in *. destruct (astep a (redirty d o)) as [a' b]. simpl in *. split; [assumption|].
    split; [assumption|]. rewrite H3. assumption.
Qed.

Lemma vrun_below pool : (forall n, len (pool n) = FramesPerSegment) ->
  forall cl n s r l rl c ci lim limi,
  stk_rel s l ci -> Rr r rl limi -> c <= ci -> lim <= limi ->
  vbelow c lim l rl cl ->
  vrun pool n s r cl = vspec l rl cl.
Proof.
  intros Hpool. induction cl as [|o k IH]; intros n s r l rl c ci lim limi HS HR Hc Hlim Hb; [reflexivity|].
  destruct o as [o|o]; simpl in Hb |- *.
  - destruct Hb as [Hb1 Hb2].
    destruct (stk_step_sim c ci s l o (pool n) HS Hb1 Hc (Hpool n)) as [H1 H2].
    destruct (stk_step (pool n) s o) as [s' b]. destruct (lstep unbounded l o) as [l' b']. simpl in *.
    subst b'. f_equal. eapply IH; eauto.
  - destruct Hb as (Hd & Hn & Hb).
    pose proof (rstep_sim r rl limi o HR Hd) as H.
    destruct (rneed (len rl) o >? limi) eqn:E; [lia|].
    destruct H as (r' & Hs & HR'). rewrite Hs.
    destruct (lstepR rl o) as [rl' ret]. simpl in *. f_equal.
    eapply IH; eauto.
Qed.

(* what NewState builds is related to the empty stack / empty registry *)
Lemma newStk_rel o d0 :
  1 <= oCallStackSize o -> len d0 = FramesPerSegment ->
  stk_rel (newStk o d0) [] (callLimit o).
Proof.
  intros Hc Hd. unfold newStk, callLimit. destruct (oMinimize o); simpl.
  - destruct (Ra_new (oCallStackSize o) d0 Hc Hd) as [H1 H2]. split; assumption.
  - destruct (Rf_new (oCallStackSize o)) as [H1 H2]; [lia|]. split; assumption.
Qed.

Lemma config_independent_lemma : forall oA oB poolA poolB cl,
  normal oA -> normal oB ->
  (forall n, len (poolA n) = FramesPerSegment) -> (forall n, len (poolB n) = FramesPerSegment) ->
  vbelow (Z.min (callLimit oA) (callLimit oB)) (Z.min (regLimit oA) (regLimit oB)) [] [] cl ->
  run_config oA poolA cl = run_config oB poolB cl /\ run_config oA poolA cl = vspec [] [] cl.
Proof.
  intros oA oB pA pB cl (HA1 & HA2 & HA3) (HB1 & HB2 & HB3) HpA HpB Hb.
  assert (HRA : Rr (newReg oA) [] (regLimit oA)).
  { apply Rr_new; destruct HA3 as [H|[H1 H2]]; lia. }
  assert (HRB : Rr (newReg oB) [] (regLimit oB)).
  { apply Rr_new; destruct HB3 as [H|[H1 H2]]; lia. }
  assert (EA : run_config oA pA cl = vspec [] [] cl).
  { unfold run_config. eapply (vrun_below pA HpA); eauto using newStk_rel; lia. }
  assert (EB : run_config oB pB cl = vspec [] [] cl).
  { unfold run_config. eapply (vrun_below pB HpB); eauto using newStk_rel; lia. }
  split; [congruence|assumption].
Qed.
