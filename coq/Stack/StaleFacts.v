(* Proofs about the cells ABOVE the registry top.

   The registry does not keep them cleared: initCallFrame of a fixed-arity Lua function lowers
   reg.top to LocalBase + NumUsedRegisters by plain assignment, so dead temporaries of the calling
   Lua function stay in the array above the callee's frame (initLuaFixed_keeps_dead).  The frame it
   builds is nevertheless a represented list (initLuaFixed_ok), and nothing an activation can do
   through the API stack operations depends on what sits above the top
   (dead_cells_unobservable_lemma): two registries that agree on the live cells give the same log
   and the same live cells for every script. *)
From GL Require Import Stack.Registry Stack.RegSpec Stack.StackApi Stack.ArrayFacts
  Stack.RegistryFacts Stack.StackApiFacts Stack.CallContractFacts.
From Coq Require Import Lia ZifyBool.

Lemma dead_cells_unobservable_lemma : forall ops r1 r2 pre l lim,
  Rr r1 (pre ++ l) lim -> Rr r2 (pre ++ l) lim ->
  L_dom l ops = true -> L_fits (len pre) lim l ops = true ->
  fst (arun r1 (len pre) ops) = fst (arun r2 (len pre) ops) /\
  live (snd (arun r1 (len pre) ops)) = live (snd (arun r2 (len pre) ops)).
Proof.
  intros ops r1 r2 pre l lim H1 H2 Hd Hf.
  destruct (api_refines_list_lemma ops r1 pre l lim H1 Hd Hf) as [A1 B1].
  destruct (api_refines_list_lemma ops r2 pre l lim H2 Hd Hf) as [A2 B2].
  split; [congruence|]. destruct B1, B2. congruence.
Qed.

(* ---------- list facts ---------- *)

Lemma len_resizeL (l : list cell) n : 0 <= n -> len (resizeL l n) = n.
Proof.
  intros. pose proof (len_nonneg l). unfold resizeL. rewrite len_app, len_firstn, len_repeat. lia.
Qed.

Lemma rd_resizeL (l : list cell) n i : 0 <= n ->
  rd (resizeL l n) i =
  if (0 <=? i) && (i <? n) then (if i <? len l then rd l i else cNil) else None.
Proof.
  intros Hn. pose proof (len_nonneg l). unfold resizeL. rd_norm.
  cases_if_prune; try lia; try reflexivity; try (rewrite rd_out; [reflexivity|lia]).
Qed.

Lemma rd_frame (pre X : list cell) (fn : cell) i :
  rd (pre ++ fn :: X) i =
  if i <? 0 then None else if i <? len pre then rd pre i
  else if i =? len pre then fn else rd X (i - len pre - 1).
Proof.
  pose proof (len_nonneg pre). rd_norm.
  cases_if_prune; try lia; try reflexivity; try (f_equal; lia); try (rewrite rd_out; [reflexivity|left; lia]).
Qed.

(* ---------- initCallFrame of a fixed-arity Lua function ---------- *)

(* the second half: registers np .. max(n1, nregs) are set to nil, the top becomes lb + nregs *)
Lemma initLua_clear r pre fn X lim np n1 nregs :
  Rr r (pre ++ fn :: X) lim -> 0 <= np <= nregs -> np <= len X -> np <= n1 ->
  len pre + 1 + Z.max n1 nregs <= lim ->
  exists r2, checkSize r (len pre + 1 + Z.max n1 nregs) = Ok r2 /\
    Rr (with_arr_top r2 (fill (arr r2) (len pre + 1 + np) (len pre + 1 + Z.max n1 nregs) cNil)
                     (len pre + 1 + nregs))
       (pre ++ fn :: resizeL (resizeL X np) nregs) lim.
Proof.
  intros HR Hnp HX Hn1 Hlim. pose proof (len_nonneg pre) as Hp. pose proof (len_nonneg X) as HX0.
  destruct (checkSize_ok r _ lim (len pre + 1 + Z.max n1 nregs) HR Hlim)
    as (r2 & Hc & HR2 & Hl2 & Ht2 & _ & _).
  exists r2. split; [exact Hc|].
  pose proof HR2 as [Htop Hcap Hlc _ _ _]. rewrite len_app, len_cons in Htop.
  apply (Rr_build r2 (pre ++ fn :: X) lim); auto.
  - apply len_fill.
  - lia.
  - rewrite len_app, len_cons, len_resizeL; lia.
  - intros i Hi. rewrite rd_fill, rd_frame.
    destruct (i <? 0) eqn:E0; [lia|].
    destruct (i <? len pre + 1 + np) eqn:E1.
    + (* below the cleared range: the old live cell *)
      replace ((0 <=? i) && (i <? len (arr r2)) && (len pre + 1 + np <=? i)
               && (i <? len pre + 1 + Z.max n1 nregs)) with false by lia.
      rewrite (Rr_rd r2 _ lim i HR2) by lia. rewrite rd_frame, E0.
      destruct (i <? len pre) eqn:E2; [reflexivity|].
      destruct (i =? len pre) eqn:E3; [reflexivity|].
      rewrite rd_resizeL by lia. rewrite len_resizeL by lia.
      replace ((0 <=? i - len pre - 1) && (i - len pre - 1 <? nregs)) with true by lia.
      replace (i - len pre - 1 <? np) with true by lia.
      rewrite rd_resizeL by lia.
      replace ((0 <=? i - len pre - 1) && (i - len pre - 1 <? np)) with true by lia.
      replace (i - len pre - 1 <? len X) with true by lia. reflexivity.
    + (* inside the cleared range *)
      unfold cap in *.
      replace ((0 <=? i) && (i <? len (arr r2)) && (len pre + 1 + np <=? i)
               && (i <? len pre + 1 + Z.max n1 nregs)) with true by lia.
      replace (i <? len pre) with false by lia. replace (i =? len pre) with false by lia.
      rewrite rd_resizeL by lia. rewrite len_resizeL by lia.
      replace ((0 <=? i - len pre - 1) && (i - len pre - 1 <? nregs)) with true by lia.
      replace (i - len pre - 1 <? np) with false by lia. reflexivity.
Qed.

(* the frame a fixed-arity Lua callee starts with, whatever the caller holds in the registers above
   the arguments (rest): the first np arguments, nil up to nregs registers *)
Lemma initLuaFixed_ok : forall r pre fn args rest lim np nregs,
  Rr r (pre ++ fn :: args ++ rest) lim -> 0 <= np <= nregs ->
  len pre + 1 + Z.max (len args) nregs <= lim ->
  exists r', initLuaFixed r (len pre + 1) (len args) np nregs = Ok r' /\
             Rr r' (pre ++ fn :: resizeL (resizeL args np) nregs) lim.
Proof.
  intros r pre fn args rest lim np nregs HR Hnp Hlim.
  pose proof (len_nonneg pre) as Hp. pose proof (len_nonneg args) as Ha. pose proof (len_nonneg rest) as Hr.
  unfold initLuaFixed. destruct (len args <? np) eqn:Elt.
  - (* missing arguments are defaulted to nil first *)
    destruct (checkSize_ok r _ lim (len pre + 1 + np) HR ltac:(lia)) as (r1 & Hc & HR1 & Hl1 & Ht1 & _ & _).
    rewrite Hc. cbn [bind].
    pose proof HR1 as [Htop Hcap Hlc _ _ _]. rewrite len_app, len_cons, len_app in Htop.
    assert (HRA : Rr (with_arr_top r1 (fill (arr r1) (len pre + 1 + len args) (len pre + 1 + np) cNil) (len pre + 1 + np))
                     (pre ++ fn :: resizeL args np) lim).
    { apply (Rr_build r1 (pre ++ fn :: args ++ rest) lim); auto.
      - apply len_fill.
      - lia.
      - rewrite len_app, len_cons, len_resizeL; lia.
      - intros i Hi. rewrite rd_fill, rd_frame. unfold cap in *.
        destruct (i <? 0) eqn:E0; [lia|].
        destruct (i <? len pre + 1 + len args) eqn:E1.
        + replace ((0 <=? i) && (i <? len (arr r1)) && (len pre + 1 + len args <=? i) && (i <? len pre + 1 + np))
            with false by lia.
          rewrite (Rr_rd r1 _ lim i HR1) by lia. rewrite rd_frame, E0.
          destruct (i <? len pre) eqn:E2; [reflexivity|].
          destruct (i =? len pre) eqn:E3; [reflexivity|].
          rewrite rd_resizeL by lia.
          replace ((0 <=? i - len pre - 1) && (i - len pre - 1 <? np)) with true by lia.
          replace (i - len pre - 1 <? len args) with true by lia.
          rewrite rd_app'. replace (i - len pre - 1 <? 0) with false by lia.
          replace (i - len pre - 1 <? len args) with true by lia. reflexivity.
        + replace ((0 <=? i) && (i <? len (arr r1)) && (len pre + 1 + len args <=? i) && (i <? len pre + 1 + np))
            with true by lia.
          replace (i <? len pre) with false by lia. replace (i =? len pre) with false by lia.
          rewrite rd_resizeL by lia.
          replace ((0 <=? i - len pre - 1) && (i - len pre - 1 <? np)) with true by lia.
          replace (i - len pre - 1 <? len args) with false by lia. reflexivity. }
    replace (if np <? nregs then nregs else np) with (Z.max np nregs) by (destruct (np <? nregs) eqn:?; lia).
    destruct (initLua_clear _ pre fn (resizeL args np) lim np np nregs HRA Hnp
                ltac:(rewrite len_resizeL; lia) ltac:(lia) ltac:(lia)) as (r2 & Hc2 & HR2).
    rewrite Hc2. cbn [bind]. eexists. split; [reflexivity|].
    replace (resizeL (resizeL args np) nregs) with (resizeL (resizeL (resizeL args np) np) nregs); [exact HR2|].
    f_equal. apply resizeL_le. lia.
  - cbn [bind].
    replace (if len args <? nregs then nregs else len args) with (Z.max (len args) nregs) by (destruct (len args <? nregs) eqn:?; lia).
    destruct (initLua_clear r pre fn (args ++ rest) lim np (len args) nregs HR Hnp
                ltac:(rewrite len_app; lia) ltac:(lia) Hlim) as (r2 & Hc2 & HR2).
    rewrite Hc2. cbn [bind]. eexists. split; [reflexivity|].
    replace (resizeL (resizeL args np) nregs) with (resizeL (resizeL (args ++ rest) np) nregs); [exact HR2|].
    f_equal. apply list_eq_rd.
    + rewrite !len_resizeL; lia.
    + intros i Hi. rewrite len_resizeL in Hi by lia. rewrite !rd_resizeL by lia. rewrite len_app.
      replace ((0 <=? i) && (i <? np)) with true by lia.
      replace (i <? len args + len rest) with true by lia. replace (i <? len args) with true by lia.
      rewrite rd_app'. replace (i <? 0) with false by lia. replace (i <? len args) with true by lia. reflexivity.
Qed.

(* ... and the array above the cleared registers is left as it was: the caller's dead temporaries are
   still there, above the new top (the registry does NOT keep the cells above its top cleared) *)
Lemma initLuaFixed_keeps_dead : forall r lb nargs np nregs,
  0 <= lb -> 0 <= nargs -> 0 <= np ->
  lb + Z.max (Z.max nargs np) nregs <= limit r ->
  exists r', initLuaFixed r lb nargs np nregs = Ok r' /\ top r' = lb + nregs /\
    forall i, lb + Z.max (Z.max nargs np) nregs <= i -> rd (arr r') i = rd (arr r) i.
Proof.
  intros r lb nargs np nregs Hlb Hna Hnp Hlim. unfold initLuaFixed, checkSize.
  destruct (nargs <? np) eqn:E.
  - replace (lb + np >? limit r) with false by lia. cbn [bind with_arr_top limit].
    replace (lb + (if np <? nregs then nregs else np) >? limit r) with false by (destruct (np <? nregs) eqn:?; lia).
    cbn [bind]. eexists. split; [reflexivity|]. split; [reflexivity|].
    intros i Hi. cbn [with_arr_top arr]. rewrite !rd_fill, !len_fill.
    destruct (np <? nregs) eqn:?; cases_if_prune; try lia; reflexivity.
  - cbn [bind].
    replace (lb + (if nargs <? nregs then nregs else nargs) >? limit r) with false by (destruct (nargs <? nregs) eqn:?; lia).
    cbn [bind]. eexists. split; [reflexivity|]. split; [reflexivity|].
    intros i Hi. cbn [with_arr_top arr]. rewrite rd_fill.
    destruct (nargs <? nregs) eqn:?; cases_if_prune; try lia; reflexivity.
Qed.
