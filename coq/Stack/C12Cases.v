(* Case evaluator for the C12 correspondence shards. *)
From GL Require Import Stack.Registry Stack.RegSpec Stack.CallFrames.
From GL Require Export Stack.CtxTree Stack.Handover.

Inductive case :=
(* hook-driven histories against the real implementations *)
| CFixed (size : Z) (ops : list sop) (obs : list sobs)
| CAuto (maxSize : Z) (ops : list sop) (obs : list sobs)
| CReg (init grow max : Z) (ops : list rop) (obs : list robs)
(* NewState(given).Options = observed *)
| COpts (given observed : options)
(* a program that stays below the limits: its trace under [cfg] and under the reference configuration *)
| CTrace (cfg : options) (ref trace : list Z)
(* a program whose deepest call needs [need] frames (measured under the reference configuration),
   run under pcall with [cfg]: outcome 0 = completed with the right result, 1 = caught "stack overflow",
   2 = caught some other error; then an epilogue on the same state *)
| CLimitCall (cfg : options) (need : Z) (outcome : Z) (epilogue_ok : bool)
(* the same for the registry: [need] registry cells; outcome 1 = caught "registry overflow" *)
| CLimitReg (cfg : options) (need : Z) (outcome : Z) (epilogue_ok : bool)
(* context bookkeeping through the public API (SetContext, NewThread, Resume to the end): after every
   operation, Context().Err() != nil of every thread made so far *)
| CCtx (ops : list xop) (obs : list (list bool))
(* a coroutine hands [k] values to a resumer (LState.Resume on a state made with RegistrySize [init],
   RegistryGrowStep [grow], RegistryMaxSize [max]) whose registry holds [t] values.
   mode 0 = yield, 1 = return, 2 = error (k = 1: the message). Observed: st 0 = Resume returned,
   1 = "registry overflow" raised in the resumer, 2 = anything else; the number of values received and
   whether they are the right ones; whether the coroutine was afterwards what it is after a completed
   hand-over (suspended in its yield and continuing its body on the next resume / dead) and the
   resumer the running thread *)
| CHandover (init grow max t k mode : Z) (st nvals : Z) (valsok childok : bool).

Definition junk8 : list frame := repeat (mkFrame 999 999) 8.

(* the pool contents do not matter for the observations (auto_refines_stack); the model is run
   with every Push handed a dirty segment *)
Definition dirty_ops (ops : list sop) : list sop :=
  map (fun o => match o with SPush t _ => SPush t junk8 | _ => o end) ops.

Definition zs_eqb := list_eqb Z.eqb.

(* compare along the history while the operations stay in the domain of the list specification *)
Fixpoint spec_stack (c : Z) (l : list Z) (ops : list sop) (obs : list sobs) : bool :=
  match ops, obs with
  | [], [] => true
  | o :: t, b :: bt =>
      if sop_dom c l o then
        let (l1, e) := lstep c l o in sobs_eqb e b && spec_stack c l1 t bt
      else true
  | _, _ => false
  end.

Fixpoint spec_reg (l : list cell) (lim : Z) (ops : list rop) (obs : list robs) : bool :=
  match ops, obs with
  | [], [] => true
  | o :: t, b :: bt =>
      if rop_dom (len l) o then
        if rneed (len l) o >? lim then
          robs_eqb (mkRobs SOverflow None (len l) l) b && spec_reg l lim t bt
        else
          let (l1, ret) := lstepR l o in
          robs_eqb (mkRobs SOk ret (len l1) l1) b && spec_reg l1 lim t bt
      else true
  | _, _ => false
  end.

Definition ints (n : Z) : list cell := map (fun i => Some (VInt (Z.of_nat i))) (seq 1 (Z.to_nat n)).

(* the resumer's registry with t values, the coroutine's with the k values on top *)
Definition ho_run (init grow max t k : Z) : ho_result :=
  match pushAll (newRegistry init grow max) (ints t), pushAll (newRegistry 128 0 0) (ints k) with
  | Ok p, Ok c => handover p c false (Some (VRef 1)) k
  | _, _ => HoFault
  end.

Definition check_impl (c : case) : bool :=
  match c with
  | CFixed size ops obs => list_eqb sobs_eqb (frun (newFixed size) (dirty_ops ops)) obs
  | CAuto maxSize ops obs => list_eqb sobs_eqb (arun_ (newAuto maxSize junk8) (dirty_ops ops)) obs
  | CReg init grow max ops obs => list_eqb robs_eqb (rrun (newRegistry init grow max) ops) obs
  | COpts given observed => options_eqb (normalise given) observed
  | CTrace _ ref trace => zs_eqb ref trace
  | CLimitCall cfg need outcome ep =>
      ep && (outcome =? (if need <=? callLimit cfg then 0 else 1))
  | CLimitReg cfg need outcome ep =>
      ep && (outcome =? (if need <=? regLimit cfg then 0 else 1))
  | CCtx ops obs => list_eqb (list_eqb Bool.eqb) (xobs [] ops) obs && (len obs =? len ops)
  | CHandover init grow max t k mode st nvals valsok childok =>
      match ho_run init grow max t k with
      | HoDone p' _ => (st =? 0) && (top p' =? t + k + 1) && (nvals =? k) && valsok && childok
      | HoRefused _ _ => (st =? 1) && childok
      | _ => false
      end
  end.

Definition check_spec (c : case) : bool :=
  match c with
  | CFixed size ops obs => spec_stack size [] (dirty_ops ops) obs
  | CAuto maxSize ops obs => spec_stack (autoCap maxSize) [] (dirty_ops ops) obs
  | CReg init grow max ops obs => spec_reg [] (Z.max init max) ops obs
  | COpts given observed => options_eqb (normalise given) observed
  | CTrace _ ref trace => zs_eqb ref trace
  (* the property: within the configured size the program completes; beyond the capacity it is a
     caught "stack overflow"; (the auto-growing stack rounds its capacity up to whole segments, so
     in between either is allowed); afterwards the state works *)
  | CLimitCall cfg need outcome ep =>
      ep && (if need <=? oCallStackSize cfg then outcome =? 0
             else if need >? callLimit cfg then outcome =? 1
             else (outcome =? 0) || (outcome =? 1))
  | CLimitReg cfg need outcome ep =>
      ep && (if need <=? regLimit cfg then outcome =? 0 else outcome =? 1)
  (* the context of a live thread is never done (an undone context never changes behaviour) *)
  | CCtx ops obs => spec_ctx [] ops obs
  (* all (the status boolean and the k values fit below the limit) or nothing (a catchable error in
     the resumer); either way the coroutine and the resumer are intact *)
  | CHandover init grow max t k mode st nvals valsok childok =>
      if t + k + 1 <=? Z.max init max then (st =? 0) && (nvals =? k) && valsok && childok
      else (st =? 1) && childok
  end.
