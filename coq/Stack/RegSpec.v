(* M-Stack / RegSpec: the registry as an unbounded list of live cells plus one number, the limit
   (= max(cap, maxSize)): what registry_refines_list proves the growing registry to be.
   Model only, no proofs. *)
From GL Require Export Stack.Registry.

(* l[i] := c (i < len l), or append when i = len l *)
Definition setL (l : list cell) (i : Z) (c : cell) : list cell :=
  if i <? len l then upd l i c else l ++ [c].

(* the list resized to n cells: truncated, or extended with LNil *)
Definition resizeN (l : list cell) (n : Z) : list cell :=
  firstn (Z.to_nat n) l ++ repeat cNil (Z.to_nat (n - len l)).

(* CopyRange on the list: the destination window [regv, regv+n) is made to exist first (regv <= len l),
   the copy runs front to back exactly as the Go loop does, then the list ends at regv+n *)
Definition copyRangeL (l : list cell) (regv start limit n : Z) : list cell :=
  let lim := if (limit =? -1) || (limit >? len l) then len l else limit in
  let l0 := l ++ repeat None (Z.to_nat (regv + n - len l)) in
  firstn (Z.to_nat (regv + n)) (copyLoop l0 regv start lim 0 (Z.to_nat n)).

Definition fillNilL (l : list cell) (regm n : Z) : list cell :=
  firstn (Z.to_nat regm) l ++ repeat cNil (Z.to_nat n).

Definition insertL (l : list cell) (v : cell) (reg : Z) : list cell :=
  firstn (Z.to_nat reg) l ++ v :: skipn (Z.to_nat reg) l.

(* the size an operation asks of the registry (argument of its checkSize), on a live list of n cells *)
Definition rneed (n : Z) (o : rop) : Z :=
  match o with
  | RPush _ => n + 1
  | RPop | RGet _ => 0
  | RSet reg _ => reg + 1
  | RSetTop t => t
  | RCopyRange regv _ _ k => regv + k
  | RFillNil regm k => regm + k
  | RInsert _ _ => n + 1
  | RRaisePush => 0                      (* never fails: raise_has_room *)
  | RMove dst _ => dst + 1
  end.

(* the domain: no operation reads or leaves a cell at or above the top uninitialised *)
Definition rop_dom (n : Z) (o : rop) : bool :=
  match o with
  | RPush _ => true
  | RRaisePush => false                 (* an error in flight: see raise_has_room; histories stop being compared *)
  | RPop => 0 <? n
  | RGet reg => (0 <=? reg) && (reg <? n)
  | RSet reg _ => (0 <=? reg) && (reg <=? n)
  | RSetTop t => 0 <=? t
  | RCopyRange regv _ _ k => (0 <=? regv) && (regv <=? n) && (0 <=? k)
  | RFillNil regm k => (0 <=? regm) && (regm <=? n) && (0 <=? k)
  | RInsert _ reg => (0 <=? reg) && (reg <=? n)
  | RMove dst src => (0 <=? src) && (src <? n) && (0 <=? dst) && (dst <=? n)
  end.

Definition lstepR (l : list cell) (o : rop) : list cell * option cell :=
  match o with
  | RPush v => (l ++ [Some v], None)
  | RPop => (firstn (Z.to_nat (len l - 1)) l, Some (rd l (len l - 1)))
  | RGet reg => (l, Some (rd l reg))
  | RSet reg v => (setL l reg (Some v), None)
  | RSetTop t => (resizeN l t, None)
  | RCopyRange regv start limit n => (copyRangeL l regv start limit n, None)
  | RFillNil regm n => (fillNilL l regm n, None)
  | RInsert v reg => (insertL l (Some v) reg, None)
  | RRaisePush => (l ++ [Some VMsg], None)
  | RMove dst src => (setL l dst (rd l src), None)
  end.

(* a history over (list, limit): an operation that needs more than the limit is refused and changes
   nothing; the limit never moves *)
Fixpoint lrunR (l : list cell) (lim : Z) (ops : list rop) : list robs :=
  match ops with
  | [] => []
  | o :: rest =>
      if rneed (len l) o >? lim then mkRobs SOverflow None (len l) l :: lrunR l lim rest
      else
        let (l1, ret) := lstepR l o in
        mkRobs SOk ret (len l1) l1 :: lrunR l1 lim rest
  end.

Fixpoint ldomR (l : list cell) (lim : Z) (ops : list rop) : bool :=
  match ops with
  | [] => true
  | o :: rest =>
      rop_dom (len l) o &&
      (if rneed (len l) o >? lim then ldomR l lim rest
       else ldomR (fst (lstepR l o)) lim rest)
  end.

(* the representation relation: r stands for the live list l under the limit lim; no error message
   is in flight (top <= limit) *)
Record Rr (r : registry) (l : list cell) (lim : Z) : Prop := mkRr {
  rr_top : top r = len l;
  rr_cap : top r <= limit r;
  rr_lc : limit r <= cap r;
  rr_live : live r = l;
  rr_lim : Z.max (limit r) (maxSize r) = lim;
  rr_grow : 0 <= growBy r \/ maxSize r <= limit r    (* NewState: growth disabled (maxSize 0) or step >= 1 *)
}.

(* the same while an error message may sit in the cell beyond the limit *)
Record Rr1 (r : registry) (l : list cell) (lim : Z) : Prop := mkRr1 {
  rr1_top : top r = len l;
  rr1_cap : top r <= cap r;
  rr1_tl : top r <= limit r + 1;
  rr1_lc : limit r <= cap r;
  rr1_live : live r = l;
  rr1_lim : Z.max (limit r) (maxSize r) = lim;
  rr1_grow : 0 <= growBy r \/ maxSize r <= limit r
}.
