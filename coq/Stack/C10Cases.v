(* Case evaluator for the C10 correspondence shards. *)
From GL Require Import Stack.Registry Stack.StackApi.

Inductive case :=
(* a script of stack operations run by a host function whose activation has LocalBase = len pre:
   pre = all registry cells below the activation (the callers'), l = the activation's list at the
   start, above = the raw cells just above the top (stale contents), pad = further capacity,
   grow/max = the registry's growBy/maxSize;
   obs = the log; pre_after = the callers' cells read back when the script has ended;
   callers_ok = every Lua caller in the chain found its locals unchanged afterwards *)
| CApi (pre l above : list cell) (pad grow max : Z) (ops : list aop) (obs : list aobs)
       (pre_after : list cell) (callers_ok : bool)
(* CallByParam{Fn: Go function, NRet, Protect: true} from a host function whose list is l *)
| CCallG (pre l : list cell) (args junk results : list cell) (nret : Z) (fails : bool)
         (obs_err : bool) (obs_after : list cell) (pre_after : list cell)
(* the same call contract observed for any other combination (Lua callee, unprotected, Call/PCall):
   the list before, the results the callee produced, NRet, whether it failed; the list afterwards *)
| CCall (l results : list cell) (nret : Z) (fails : bool) (obs_err : bool) (obs_after : list cell)
(* vm.go copyReturnValues(L, regv, start, n, b) on a registry holding cells (top = len cells) with
   stale cells above: the top and the live cells afterwards *)
| CCopyRet (cells above : list cell) (pad : Z) (regv start n b : Z) (obs_top : Z) (obs_cells : list cell)
(* state.go initCallFrame of a fixed-arity Lua function (np parameters, nregs registers) handed nargs
   arguments at LocalBase lb, on a registry holding cells (top = len cells) with stale cells above:
   the top and the raw array (up to the end of `above`, or the new top if that is higher) afterwards *)
| CInitLua (cells above : list cell) (pad : Z) (lb nargs np nregs : Z) (obs_top : Z) (obs_arr : list cell)
(* an object-level API call against the same operator evaluated by a Lua chunk: both sides encoded
   as integer traces (result, then the metamethod log) *)
| CObj (op : Z) (api lua : list Z)
(* the same for an input in the class of a listed finding: dev = what the code is known to do there *)
| CObjDev (op : Z) (api lua dev : list Z).

Definition mkR (pre l above : list cell) (pad grow max : Z) : registry :=
  let a := pre ++ l ++ above ++ fresh pad in mkReg a (len pre + len l) (len a) grow max.

Definition aobss_eqb := list_eqb aobs_eqb.

Definition check_impl (c : case) : bool :=
  match c with
  | CApi pre l above pad grow max ops obs pre_after ok =>
      let (o, rf) := arun (mkR pre l above pad grow max) (len pre) ops in
      aobss_eqb o obs && cells_eqb (firstn (length pre) (arr rf)) pre_after && ok
  | CCallG pre l args junk results nret fails oerr oafter pre_after =>
      match callByParamG (mkR pre l [] 64 0 0) (Some (VRef 0)) args junk results nret fails with
      | Ok (rf, e) =>
          Bool.eqb e oerr && cells_eqb (skipn (length pre) (live rf)) oafter
          && cells_eqb (firstn (length pre) (arr rf)) pre_after
      | _ => false
      end
  | CCall l results nret fails oerr oafter =>
      Bool.eqb fails oerr && cells_eqb (if fails then l else l ++ adjust nret results) oafter
  | CCopyRet cells above pad regv start n b otop ocells =>
      match copyReturnValues (mkR [] cells above pad 0 0) regv start n b with
      | Ok r' => (top r' =? otop) && cells_eqb (live r') ocells
      | _ => false
      end
  | CInitLua cells above pad lb nargs np nregs otop oarr =>
      match initLuaFixed (mkR [] cells above pad 0 0) lb nargs np nregs with
      | Ok r' => (top r' =? otop) && cells_eqb (firstn (length oarr) (arr r')) oarr
      | _ => false
      end
  | CObj _ api lua => list_eqb Z.eqb api lua
  | CObjDev _ api _ dev => list_eqb Z.eqb api dev
  end.

(* the values OP_RETURN A B returns from the registers regs (B = 0: up to the top) *)
Definition retvals (regs : list cell) (A B : Z) : list cell :=
  if B =? 0 then skipn (Z.to_nat A) regs else resizeL (skipn (Z.to_nat A) regs) (B - 1).

(* compare along the script while it stays in the domain of the list specification *)
Fixpoint spec_api (l : list cell) (ops : list aop) (obs : list aobs) : bool :=
  match ops, obs with
  | [], [] => true
  | o :: t, b :: bt =>
      if aop_dom (len l) o then
        match L_step l o with
        | (l1, ret, false) => aobs_eqb (mkAobs StOk ret (len l1) l1) b && spec_api l1 t bt
        | (l1, ret, true) => aobs_eqb (mkAobs StRaised ret (len l1) l1) b
        end
      else true
  | _, _ => false
  end.

Definition check_spec (c : case) : bool :=
  match c with
  | CApi pre l above pad grow max ops obs pre_after ok =>
      spec_api l ops obs && cells_eqb pre pre_after && ok
  | CCallG pre l args junk results nret fails oerr oafter pre_after =>
      Bool.eqb fails oerr && cells_eqb (if fails then l else l ++ adjust nret results) oafter
      && cells_eqb pre pre_after
  | CCall l results nret fails oerr oafter =>
      Bool.eqb fails oerr && cells_eqb (if fails then l else l ++ adjust nret results) oafter
  | CCopyRet cells above pad regv start n b otop ocells =>
      (* towards lower registers, inside the frame: n values, the returned ones first, then nil *)
      if (0 <=? regv) && (regv <=? start) && (start + Z.max 0 (b - 1) <=? len cells) && (0 <=? n) && (0 <=? b) then
        (otop =? regv + n) && cells_eqb (firstn (Z.to_nat regv) cells ++ resizeL (retvals cells start b) n) ocells
      else true
  | CInitLua cells above pad lb nargs np nregs otop oarr =>
      (* the frame is the first np arguments, nil up to nregs registers; everything below LocalBase is as before;
         the cells above the registers the frame clears are as before (dead values are not cleared) *)
      if (1 <=? lb) && (0 <=? nargs) && (lb + nargs <=? len cells) && (0 <=? np) && (np <=? nregs) then
        let args := firstn (Z.to_nat nargs) (skipn (Z.to_nat lb) cells) in
        let hi := lb + Z.max (Z.max nargs np) nregs in
        (otop =? lb + nregs)
        && cells_eqb (firstn (Z.to_nat otop) oarr) (firstn (Z.to_nat lb) cells ++ resizeL (resizeL args np) nregs)
        && cells_eqb (skipn (Z.to_nat hi) oarr) (skipn (Z.to_nat hi) (cells ++ above))
      else true
  | CObj _ api lua => list_eqb Z.eqb api lua
  | CObjDev _ api lua _ => list_eqb Z.eqb api lua
  end.
