(* Proofs about Stack/StackApi.v: the API stack operations over (registry, LocalBase) act as list
   operations on the activation's private list and leave the callers' prefix alone. *)
From GL Require Import Stack.Registry Stack.RegSpec Stack.StackApi Stack.ArrayFacts Stack.RegistryFacts.
From Coq Require Import Lia ZifyBool.

(* ---------- small list facts on pre ++ l ---------- *)

Lemma rd_pre_l (pre l : list cell) j : 0 <= j -> rd (pre ++ l) (len pre + j) = rd l j.
Proof.
  intros. rewrite rd_app'. pose proof (len_nonneg pre). cases_if; try lia. f_equal. lia.
Qed.

Lemma nthZ_rd l j : 0 <= j < len l -> nthZ l j = rd l j.
Proof. intros. unfold nthZ. symmetry. apply rd_in_nth. assumption. Qed.

Lemma resizeN_pre (pre l : list cell) n : 0 <= n -> resizeN (pre ++ l) (len pre + n) = pre ++ resizeL l n.
Proof.
  intros. pose proof (len_nonneg pre). pose proof (len_nonneg l). unfold resizeN, resizeL. pw.
Qed.

Lemma resizeN_pre0 (pre l : list cell) : resizeN (pre ++ l) (len pre) = pre ++ resizeL l 0.
Proof. rewrite <- (resizeN_pre pre l 0) by lia. f_equal. lia. Qed.

Lemma setL_pre (pre l : list cell) j v : 0 <= j < len l ->
  setL (pre ++ l) (len pre + j) v = pre ++ (firstn (Z.to_nat j) l ++ v :: skipn (Z.to_nat (j + 1)) l).
Proof.
  intros. pose proof (len_nonneg pre). unfold setL. rewrite len_app.
  destruct (len pre + j <? len pre + len l) eqn:E; [|lia]. pw.
Qed.

Lemma insertL_pre (pre l : list cell) j v : 0 <= j <= len l ->
  insertL (pre ++ l) v (len pre + j) = pre ++ (firstn (Z.to_nat j) l ++ v :: skipn (Z.to_nat j) l).
Proof.
  intros. pose proof (len_nonneg pre). unfold insertL. pw.
Qed.

Lemma firstn_pre (pre l : list cell) k : 0 <= k <= len l ->
  firstn (Z.to_nat (len (pre ++ l) - k)) (pre ++ l) = pre ++ firstn (Z.to_nat (len l - k)) l.
Proof.
  intros. pose proof (len_nonneg pre). pw.
Qed.

(* ---------- Get / GetTop / dump ---------- *)

Lemma top_pre r pre l lim : Rr r (pre ++ l) lim -> top r = len pre + len l.
Proof. intros [Ht _ _ _ _ _]. rewrite Ht, len_app. reflexivity. Qed.

Lemma apiGetTop_ok r pre l lim : Rr r (pre ++ l) lim -> apiGetTop r (len pre) = len l.
Proof. intros HR. unfold apiGetTop. rewrite (top_pre _ _ _ _ HR). lia. Qed.

Lemma apiGet_ok r pre l lim idx : Rr r (pre ++ l) lim -> RegistryIndex < idx ->
  apiGet r (len pre) idx = Ok (L_get l idx).
Proof.
  intros HR Hidx. pose proof (top_pre _ _ _ _ HR) as Ht. pose proof (len_nonneg pre). pose proof (len_nonneg l).
  unfold apiGet, L_get, validIdx, absIndex.
  destruct (idx >? 0) eqn:E1.
  - destruct (len pre + idx - 1 <? top r) eqn:E2.
    + rewrite (Get_ok r (pre ++ l) lim) by (auto; rewrite ?len_app; lia).
      replace (len pre + idx - 1) with (len pre + (idx - 1)) by lia. rewrite rd_pre_l by lia.
      destruct ((1 <=? idx) && (idx <=? len l)) eqn:E3; [|lia]. now rewrite nthZ_rd by lia.
    + destruct ((1 <=? idx) && (idx <=? len l)) eqn:E3; [lia|reflexivity].
  - destruct (idx =? 0) eqn:E2.
    + destruct ((1 <=? 0) && (0 <=? len l)) eqn:E3; [lia|reflexivity].
    + destruct (idx >? RegistryIndex) eqn:E3; [|lia].
      destruct (top r + idx <? len pre) eqn:E4.
      * destruct ((1 <=? len l + idx + 1) && (len l + idx + 1 <=? len l)) eqn:E5; [lia|reflexivity].
      * rewrite (Get_ok r (pre ++ l) lim) by (auto; rewrite ?len_app; lia).
        replace (top r + idx) with (len pre + (len l + idx)) by lia. rewrite rd_pre_l by lia.
        destruct ((1 <=? len l + idx + 1) && (len l + idx + 1 <=? len l)) eqn:E5; [|lia].
        replace (len l + idx + 1 - 1) with (len l + idx) by lia. now rewrite nthZ_rd by lia.
Qed.

Lemma map_seq_rd : forall (l : list cell) s (f : Z -> cell),
  (forall j, 0 <= j < len l -> f (Z.of_nat s + j) = rd l j) ->
  map f (map Z.of_nat (seq s (length l))) = l.
Proof.
  induction l as [|x t IH]; intros s f H; simpl; [reflexivity|]. f_equal.
  - specialize (H 0). rewrite Z.add_0_r in H. rewrite H; [reflexivity|]. rewrite len_cons. pose proof (len_nonneg t). lia.
  - apply IH. intros j Hj. specialize (H (j + 1)). rewrite rd_cons_S in H by lia.
    replace (j + 1 - 1) with j in H by lia. rewrite <- H; [f_equal; lia|]. rewrite len_cons. lia.
Qed.

Lemma dump_ok r pre l lim : Rr r (pre ++ l) lim -> dump r (len pre) = l.
Proof.
  intros HR. unfold dump, zseq. rewrite (apiGetTop_ok _ _ _ _ HR). replace (Z.to_nat (len l)) with (length l) by (unfold len; lia).
  apply map_seq_rd. intros j Hj. change (Z.of_nat 1) with 1.
  rewrite (apiGet_ok r pre l lim) by (auto; unfold RegistryIndex; lia). cbn [getOr].
  unfold L_get, validIdx, absIndex.
  destruct (1 + j >? 0) eqn:E; [|lia].
  destruct ((1 <=? 1 + j) && (1 + j <=? len l)) eqn:E2; [|lia].
  rewrite nthZ_rd by lia. f_equal. lia.
Qed.

(* ---------- SetTop ---------- *)

Lemma apiSetTop_ok r pre l lim idx :
  Rr r (pre ++ l) lim -> RegistryIndex < idx -> aneed (len pre) (len l) (ASetTop idx) <= lim ->
  exists r', apiSetTop r (len pre) idx = AOk r' /\ Rr r' (pre ++ L_settop l idx) lim.
Proof.
  intros HR Hidx Hn. pose proof (top_pre _ _ _ _ HR) as Ht. pose proof (len_nonneg pre). pose proof (len_nonneg l).
  pose proof HR as [_ Hcap Hlc _ Hlim _].
  assert (Hb : len pre <= lim) by lia.
  unfold apiSetTop, indexToReg, L_settop. cbn [aneed] in Hn.
  destruct (idx >? 0) eqn:E1.
  - destruct (idx >=? 0) eqn:E0; [|lia].
    destruct (len pre + idx - 1 + 1 <? len pre) eqn:E2; [lia|].
    destruct (SetTop_ok r (pre ++ l) lim (len pre + idx - 1 + 1) HR) as (r' & Hs & HR'); [lia|].
    rewrite Hs. exists r'. split; [reflexivity|].
    replace (len pre + idx - 1 + 1) with (len pre + idx) in HR' by lia.
    rewrite resizeN_pre in HR' by lia. exact HR'.
  - destruct (idx =? 0) eqn:E2.
    + assert (idx = 0) by lia. subst idx. change (0 >=? 0) with true. cbv iota.
      destruct (SetTop_ok r (pre ++ l) lim (len pre) HR) as (r' & Hs & HR'); [lia|].
      rewrite resizeN_pre0 in HR'.
      destruct (-1 + 1 <? len pre) eqn:E3.
      * rewrite Hs. cbn [lift]. eauto.
      * assert (len pre = 0) by lia. replace (-1 + 1) with (len pre) by lia. rewrite Hs. cbn [lift]. eauto.
    + destruct (idx >=? 0) eqn:E0; [lia|].
      destruct (top r + idx <? len pre) eqn:E3.
      * destruct (SetTop_ok r (pre ++ l) lim (len pre) HR) as (r' & Hs & HR'); [lia|].
        rewrite resizeN_pre0 in HR'.
        replace (Z.max 0 (len l + idx + 1)) with 0 by lia.
        destruct (-1 + 1 <? len pre) eqn:E4.
        -- rewrite Hs. cbn [lift]. eauto.
        -- assert (len pre = 0) by lia. replace (-1 + 1) with (len pre) by lia. rewrite Hs. cbn [lift]. eauto.
      * destruct (top r + idx + 1 <? len pre) eqn:E4; [lia|].
        destruct (SetTop_ok r (pre ++ l) lim (top r + idx + 1) HR) as (r' & Hs & HR'); [lia|].
        rewrite Hs. exists r'. split; [reflexivity|].
        replace (top r + idx + 1) with (len pre + (len l + idx + 1)) in HR' by lia.
        rewrite resizeN_pre in HR' by lia.
        replace (Z.max 0 (len l + idx + 1)) with (len l + idx + 1) by lia. exact HR'.
Qed.

(* ---------- Replace ---------- *)

Lemma apiReplace_ok r pre l lim idx v :
  Rr r (pre ++ l) lim -> RegistryIndex < idx ->
  exists r', apiReplace r (len pre) idx v = AOk r' /\ Rr r' (pre ++ L_replace l idx v) lim.
Proof.
  intros HR Hidx. pose proof (top_pre _ _ _ _ HR) as Ht. pose proof (len_nonneg pre). pose proof (len_nonneg l).
  pose proof HR as [_ Hcap Hlc _ Hlim _].
  unfold apiReplace, L_replace, validIdx, absIndex.
  destruct (idx >? 0) eqn:E1.
  - destruct (len pre + idx - 1 <? top r) eqn:E2.
    + destruct (Set_ok r (pre ++ l) lim (len pre + idx - 1) v HR) as (r' & Hs & HR'); rewrite ?len_app; try lia.
      rewrite Hs. exists r'. split; [reflexivity|].
      destruct ((1 <=? idx) && (idx <=? len l)) eqn:E3; [|lia].
      replace (len pre + idx - 1) with (len pre + (idx - 1)) in HR' by lia.
      rewrite setL_pre in HR' by lia. replace (idx - 1 + 1) with idx in HR' by lia. exact HR'.
    + destruct ((1 <=? idx) && (idx <=? len l)) eqn:E3; [lia|]. eauto.
  - destruct (idx =? 0) eqn:E2.
    + destruct ((1 <=? 0) && (0 <=? len l)) eqn:E3; [lia|]. eauto.
    + destruct (idx >? RegistryIndex) eqn:E3; [|lia].
      destruct (top r + idx >=? len pre) eqn:E4.
      * destruct (Set_ok r (pre ++ l) lim (top r + idx) v HR) as (r' & Hs & HR'); rewrite ?len_app; try lia.
        rewrite Hs. exists r'. split; [reflexivity|].
        destruct ((1 <=? len l + idx + 1) && (len l + idx + 1 <=? len l)) eqn:E5; [|lia].
        replace (top r + idx) with (len pre + (len l + idx)) in HR' by lia.
        rewrite setL_pre in HR' by lia.
        replace (len l + idx + 1 - 1) with (len l + idx) by lia. exact HR'.
      * destruct ((1 <=? len l + idx + 1) && (len l + idx + 1 <=? len l)) eqn:E5; [lia|]. eauto.
Qed.

(* ---------- Push ---------- *)

Lemma apiPush_ok r pre l lim v :
  Rr r (pre ++ l) lim -> len pre + len l + 1 <= lim ->
  exists r', apiPush r v = AOk r' /\ Rr r' (pre ++ L_push l v) lim.
Proof.
  intros HR Hn. unfold apiPush, L_push.
  destruct (Push_ok r (pre ++ l) lim v HR) as (r' & Hs & HR'); [rewrite len_app; lia|].
  rewrite Hs. exists r'. split; [reflexivity|]. now rewrite app_assoc.
Qed.

(* ---------- Pop ---------- *)

Lemma popLoop_ok pre : forall k r l lim, Rr r (pre ++ l) lim ->
  if Z.of_nat k <=? len l
  then exists r', popLoop r (len pre) k = AOk r' /\ Rr r' (pre ++ firstn (Z.to_nat (len l - Z.of_nat k)) l) lim
  else exists r', popLoop r (len pre) k = ARaised r' /\ Rr1 r' (pre ++ [Some VMsg]) lim.
Proof.
  induction k as [|k IH]; intros r l lim HR; pose proof (len_nonneg l) as Hl0; pose proof (len_nonneg pre).
  - destruct (Z.of_nat 0 <=? len l) eqn:E; [|lia]. exists r. split; [reflexivity|].
    replace (len l - Z.of_nat 0) with (len l) by lia. now rewrite firstn_all_len.
  - cbn [popLoop]. rewrite (apiGetTop_ok _ _ _ _ HR).
    destruct (len l =? 0) eqn:E0.
    + destruct (Z.of_nat (S k) <=? len l) eqn:E; [lia|].
      assert (l = []) by (destruct l; [reflexivity|rewrite len_cons in E0; pose proof (len_nonneg l); lia]). subst l.
      unfold raise. destruct (raisePush_ok r (pre ++ []) lim (Some VMsg) HR) as (r' & Hs & HR').
      rewrite Hs. exists r'. split; [reflexivity|].
      rewrite app_nil_r in HR'. exact HR'.
    + destruct (Pop_ok r (pre ++ l) lim HR) as (r1 & Hp & HR1); [rewrite len_app; lia|].
      rewrite Hp.
      replace (len (pre ++ l) - 1) with (len (pre ++ l) - 1) in HR1 by lia.
      rewrite (firstn_pre pre l 1) in HR1 by lia.
      specialize (IH r1 (firstn (Z.to_nat (len l - 1)) l) lim HR1).
      rewrite len_firstn in IH.
      replace (Z.min (Z.max 0 (len l - 1)) (len l)) with (len l - 1) in IH by lia.
      destruct (Z.of_nat (S k) <=? len l) eqn:E.
      * destruct (Z.of_nat k <=? len l - 1) eqn:E2; [|lia].
        destruct IH as (r' & Hs & HR'). exists r'. split; [exact Hs|].
        replace (firstn (Z.to_nat (len l - Z.of_nat (S k))) l)
          with (firstn (Z.to_nat (len l - 1 - Z.of_nat k)) (firstn (Z.to_nat (len l - 1)) l)); [exact HR'|].
        pw.
      * destruct (Z.of_nat k <=? len l - 1) eqn:E2; [lia|]. exact IH.
Qed.

Lemma apiPop_ok r pre l lim n : Rr r (pre ++ l) lim ->
  match L_pop l n with
  | (l1, false) => exists r', apiPop r (len pre) n = AOk r' /\ Rr r' (pre ++ l1) lim
  | (l1, true) => exists r', apiPop r (len pre) n = ARaised r' /\ Rr1 r' (pre ++ l1) lim
  end.
Proof.
  intros HR. pose proof (len_nonneg l). unfold apiPop, L_pop.
  pose proof (popLoop_ok pre (Z.to_nat n) r l lim HR) as H0.
  destruct (n <=? len l) eqn:E.
  - destruct (Z.of_nat (Z.to_nat n) <=? len l) eqn:E2; [|lia].
    replace (Z.of_nat (Z.to_nat n)) with (Z.max 0 n) in H0 by lia. exact H0.
  - destruct (Z.of_nat (Z.to_nat n) <=? len l) eqn:E2; [lia|]. exact H0.
Qed.

(* ---------- Insert ---------- *)

Lemma apiInsert_as_Insert r pre l lim v idx :
  Rr r (pre ++ l) lim -> insPos (len l) idx <= len l + 1 ->
  apiInsert r (len pre) v idx = lift (Insert r v (len pre + (insPos (len l) idx - 1))).
Proof.
  intros HR Hd. pose proof (top_pre _ _ _ _ HR) as Ht. pose proof (len_nonneg pre). pose proof (len_nonneg l).
  unfold apiInsert, indexToReg, insPos, validIdx, absIndex in *. unfold Insert.
  destruct (idx >? 0) eqn:E1.
  - destruct (len pre + (idx - 1) <? 0) eqn:E0; [lia|].
    replace (len pre + idx - 1) with (len pre + (idx - 1)) by lia.
    destruct (len pre + (idx - 1) >=? top r) eqn:E2.
    { destruct (len pre + (idx - 1) >? top r) eqn:E2'; [lia|]. reflexivity. }
    destruct (len pre + (idx - 1) <=? len pre) eqn:E3; [|reflexivity].
    assert (idx = 1) by lia. subst idx. replace (len pre + (1 - 1)) with (len pre) by lia. reflexivity.
  - destruct (idx =? 0) eqn:E2.
    + destruct ((1 <=? 0) && (0 <=? len l)) eqn:E3; [lia|].
      replace (len pre + (1 - 1)) with (len pre) by lia.
      destruct (len pre <? 0) eqn:E0; [lia|].
      destruct (-1 >=? top r) eqn:E4; [lia|]. destruct (-1 <=? len pre) eqn:E5; [|lia].
      destruct (len pre >=? top r) eqn:E6; [|reflexivity].
      replace (Z.to_nat (top r - len pre)) with O by lia. reflexivity.
    + destruct (top r + idx <? len pre) eqn:E3.
      * destruct ((1 <=? len l + idx + 1) && (len l + idx + 1 <=? len l)) eqn:E4; [lia|].
        replace (len pre + (1 - 1)) with (len pre) by lia.
        destruct (len pre <? 0) eqn:E0; [lia|].
        destruct (-1 >=? top r) eqn:E5; [lia|]. destruct (-1 <=? len pre) eqn:E6; [|lia].
        destruct (len pre >=? top r) eqn:E7; [|reflexivity].
        replace (Z.to_nat (top r - len pre)) with O by lia. reflexivity.
      * destruct ((1 <=? len l + idx + 1) && (len l + idx + 1 <=? len l)) eqn:E4; [|lia].
        replace (len pre + (len l + idx + 1 - 1)) with (top r + idx) by lia.
        destruct (top r + idx <? 0) eqn:E0; [lia|].
        destruct (top r + idx >=? top r) eqn:E5; [lia|].
        destruct (top r + idx <=? len pre) eqn:E6; [|reflexivity].
        replace (top r + idx) with (len pre) by lia. reflexivity.
Qed.

Lemma apiInsert_ok r pre l lim v idx :
  Rr r (pre ++ l) lim -> RegistryIndex < idx ->
  len pre + Z.max (len l + 1) (insPos (len l) idx) <= lim ->
  exists r', apiInsert r (len pre) v idx = AOk r' /\ Rr r' (pre ++ L_insert l v idx) lim.
Proof.
  intros HR Hidx Hn. pose proof (len_nonneg pre). pose proof (len_nonneg l).
  assert (Hp : 1 <= insPos (len l) idx).
  { unfold insPos, validIdx. destruct (idx >? 0) eqn:E; [lia|].
    destruct ((1 <=? absIndex (len l) idx) && (absIndex (len l) idx <=? len l)) eqn:E2; lia. }
  unfold L_insert. destruct (insPos (len l) idx >? len l + 1) eqn:Ea.
  - (* beyond top+1: the gap is filled with LNil, then the value is stored *)
    assert (Hpos : idx >? 0 = true).
    { unfold insPos, validIdx in Ea. destruct (idx >? 0) eqn:E; [reflexivity|].
      destruct ((1 <=? absIndex (len l) idx) && (absIndex (len l) idx <=? len l)) eqn:E2; lia. }
    assert (Ha : insPos (len l) idx = idx) by (unfold insPos; now rewrite Hpos).
    rewrite Ha in *. pose proof (top_pre _ _ _ _ HR) as Ht.
    unfold apiInsert, indexToReg. rewrite Hpos.
    destruct (len pre + idx - 1 >=? top r) eqn:E1; [|lia].
    destruct (len pre + idx - 1 >? top r) eqn:E2; [|lia].
    destruct (SetTop_ok r (pre ++ l) lim (len pre + idx - 1) HR) as (r1 & Hs & HR1); [lia|].
    rewrite Hs. cbn [bind].
    replace (len pre + idx - 1) with (len pre + (idx - 1)) in HR1 by lia. rewrite resizeN_pre in HR1 by lia.
    assert (Hlen : len (pre ++ resizeL l (idx - 1)) = len pre + (idx - 1)) by (unfold resizeL; rd_norm; lia).
    destruct (Set_ok r1 _ lim (len pre + idx - 1) v HR1) as (r2 & Hs2 & HR2); try lia.
    rewrite Hs2. exists r2. split; [reflexivity|].
    unfold setL in HR2. destruct (len pre + idx - 1 <? len (pre ++ resizeL l (idx - 1))) eqn:E3; [lia|].
    rewrite <- app_assoc in HR2. exact HR2.
  - assert (Hd : insPos (len l) idx <= len l + 1) by lia.
    rewrite (apiInsert_as_Insert r pre l lim v idx HR Hd).
    destruct (Insert_ok r (pre ++ l) lim v (len pre + (insPos (len l) idx - 1)) HR) as (r' & Hs & HR');
      rewrite ?len_app; try lia.
    rewrite Hs. exists r'. split; [reflexivity|].
    rewrite insertL_pre in HR' by lia. exact HR'.
Qed.

(* ---------- Remove ---------- *)

Fixpoint shiftDown (a : list cell) (i : Z) (k : nat) : list cell :=
  match k with O => a | S k' => shiftDown (upd a i (rd a (i + 1))) (i + 1) k' end.

Lemma shiftDown_len : forall k a i, len (shiftDown a i k) = len a.
Proof. induction k as [|k IH]; intros; simpl; auto. rewrite IH. apply len_upd. Qed.

Lemma shiftDown_rd : forall k a i p, 0 <= i -> i + Z.of_nat k < len a ->
  rd (shiftDown a i k) p = if (i <=? p) && (p <? i + Z.of_nat k) then rd a (p + 1) else rd a p.
Proof.
  induction k as [|k IH]; intros a i p Hi Hlen; simpl shiftDown.
  - destruct ((i <=? p) && (p <? i + Z.of_nat 0)) eqn:E; [lia|reflexivity].
  - rewrite IH by (rewrite ?len_upd; lia). rewrite !rd_upd.
    cases_if; try lia; try reflexivity; try (f_equal; lia).
Qed.

Lemma removeLoop_nogrow : forall k r i,
  0 <= i -> i + Z.of_nat k < top r -> top r <= limit r ->
  removeLoop r i k = Ok (with_arr_top r (shiftDown (arr r) i k) (top r)).
Proof.
  induction k as [|k IH]; intros r i Hi Hk Hc; simpl removeLoop.
  - simpl. destruct r; reflexivity.
  - rewrite Set_nogrow by lia. cbn [bind].
    destruct (i >=? top r) eqn:E; [lia|].
    rewrite IH; unfold cap in *; simpl; rewrite ?len_upd; try lia. reflexivity.
Qed.

Lemma Rr_self r : 0 <= top r <= limit r -> limit r <= cap r -> (0 <= growBy r \/ maxSize r <= limit r) ->
  Rr r (live r) (Z.max (limit r) (maxSize r)).
Proof.
  intros Ht Hlc Hg. constructor; auto; try lia. unfold live. rewrite len_firstn. unfold cap in *. lia.
Qed.

Lemma apiRemove_ok r pre l lim idx :
  Rr r (pre ++ l) lim -> RegistryIndex < idx ->
  exists r', apiRemove r (len pre) idx = AOk r' /\ Rr r' (pre ++ L_remove l idx) lim.
Proof.
  intros HR Hidx. pose proof (top_pre _ _ _ _ HR) as Ht. pose proof (len_nonneg pre). pose proof (len_nonneg l).
  pose proof HR as [_ Hcap Hlc Hlive Hlim Hg].
  unfold apiRemove, L_remove.
  set (a := absIndex (len l) idx).
  assert (Hreg : indexToReg r (len pre) idx = if validIdx (len l) idx then len pre + a - 1
                 else if idx >? 0 then len pre + idx - 1 else -1).
  { unfold indexToReg, validIdx, a, absIndex.
    destruct (idx >? 0) eqn:E1; [cases_if; lia|].
    destruct (idx =? 0) eqn:E2; [cases_if; lia|].
    destruct (top r + idx <? len pre) eqn:E3; cases_if; lia. }
  rewrite Hreg. destruct (validIdx (len l) idx) eqn:Ev.
  2:{ (* invalid index: nothing happens *)
      unfold validIdx in Ev. fold a in Ev.
      destruct (idx >? 0) eqn:E1.
      - assert (a = idx) by (unfold a, absIndex; rewrite E1; reflexivity).
        destruct (len pre + idx - 1 >=? top r) eqn:E2; [eauto|lia].
      - destruct (-1 >=? top r) eqn:E2; [eauto|]. destruct (-1 <? len pre) eqn:E3; [eauto|lia]. }
  unfold validIdx in Ev. fold a in Ev. assert (Ha : 1 <= a <= len l) by lia.
  destruct (len pre + a - 1 >=? top r) eqn:E1; [lia|].
  destruct (len pre + a - 1 <? len pre) eqn:E2; [lia|].
  destruct (len pre + a - 1 =? top r - 1) eqn:E3.
  - (* the top element: Pop(1) *)
    assert (Hal : a = len l) by lia.
    pose proof (apiPop_ok r pre l lim 1 HR) as HP. unfold L_pop in HP.
    destruct (1 <=? len l) eqn:E4; [|lia].
    destruct HP as (r' & Hs & HR'). exists r'. split; [exact Hs|].
    replace (firstn (Z.to_nat (a - 1)) l ++ skipn (Z.to_nat a) l) with (firstn (Z.to_nat (len l - Z.max 0 1)) l); [exact HR'|].
    rewrite Hal. pw.
  - (* shift the elements above down, drop the last *)
    rewrite removeLoop_nogrow by lia. cbn [bind].
    set (r2 := with_arr_top r (shiftDown (arr r) (len pre + a - 1) (Z.to_nat (top r - 1 - (len pre + a - 1)))) (top r)).
    assert (HR2 : Rr r2 (live r2) lim).
    { rewrite <- Hlim. change (limit r) with (limit r2). change (maxSize r) with (maxSize r2).
      apply Rr_self; unfold r2, cap in *; simpl; rewrite ?shiftDown_len; lia. }
    destruct (SetTop_ok r2 (live r2) lim (top r - 1) HR2) as (r' & Hs & HR'); [lia|].
    rewrite Hs. exists r'. split; [reflexivity|].
    replace (pre ++ firstn (Z.to_nat (a - 1)) l ++ skipn (Z.to_nat a) l) with (resizeN (live r2) (top r - 1)); [exact HR'|].
    unfold resizeN, live, r2. cbn [arr top with_arr_top].
    apply list_eq_rd.
    + rd_norm. rewrite shiftDown_len. unfold cap in *. lia.
    + intros i Hi. rd_norm_in Hi. rewrite shiftDown_len in Hi. unfold cap in *.
      rewrite rd_app'. rewrite !len_firstn, shiftDown_len.
      destruct (i <? 0) eqn:Ei0; [lia|].
      destruct (i <? Z.min (Z.max 0 (top r - 1)) (Z.min (Z.max 0 (top r)) (len (arr r)))) eqn:Ei1; [|lia].
      rewrite !rd_firstn. destruct (i <? top r - 1) eqn:Ei2; [|lia]. destruct (i <? top r) eqn:Ei3; [|lia].
      rewrite shiftDown_rd by lia.
      rewrite !(Rr_rd r (pre ++ l) lim) by (auto; lia).
      destruct ((len pre + a - 1 <=? i) && (i <? len pre + a - 1 + Z.of_nat (Z.to_nat (top r - 1 - (len pre + a - 1))))) eqn:E5.
      * rd_norm. cases_if; try lia; try reflexivity; try (f_equal; lia).
      * rd_norm. cases_if; try lia; try reflexivity; try (f_equal; lia).
Qed.

(* ---------- one step of a script ---------- *)

Lemma astep_sim r pre l lim o :
  Rr r (pre ++ l) lim -> aop_dom (len l) o = true -> aneed (len pre) (len l) o <= lim ->
  match L_step l o with
  | (l1, ret, false) => exists r1, astep r (len pre) o = (AOk r1, ret) /\ Rr r1 (pre ++ l1) lim
  | (l1, ret, true) => exists r1, astep r (len pre) o = (ARaised r1, ret) /\ Rr1 r1 (pre ++ l1) lim
  end.
Proof.
  intros HR Hd Hn. destruct o as [v|n|idx|idx|v idx|idx|idx v|]; cbn [L_step astep aop_dom aneed] in *.
  - destruct (apiPush_ok r pre l lim (Some v) HR) as (r' & Hs & HR'); [lia|]. rewrite Hs. cbn [lift]. eauto.
  - pose proof (apiPop_ok r pre l lim n HR) as H. destruct (L_pop l n) as [l1 [|]];
      destruct H as (r' & Hs & HR'); rewrite Hs; eauto.
  - rewrite (apiGet_ok r pre l lim idx HR) by lia. eauto.
  - destruct (apiSetTop_ok r pre l lim idx HR) as (r' & Hs & HR'); try lia; [exact Hn|]. rewrite Hs. cbn [lift]. eauto.
  - destruct (apiInsert_ok r pre l lim (Some v) idx HR) as (r' & Hs & HR'); try lia. rewrite Hs. cbn [lift]. eauto.
  - destruct (apiRemove_ok r pre l lim idx HR) as (r' & Hs & HR'); try lia. rewrite Hs. cbn [lift]. eauto.
  - destruct (apiReplace_ok r pre l lim idx (Some v) HR) as (r' & Hs & HR'); try lia. rewrite Hs. cbn [lift]. eauto.
  - rewrite (apiGetTop_ok _ _ _ _ HR). eauto.
Qed.

(* ---------- scripts ---------- *)

Lemma api_refines_list_lemma : forall ops r pre l lim,
  Rr r (pre ++ l) lim -> L_dom l ops = true -> L_fits (len pre) lim l ops = true ->
  fst (arun r (len pre) ops) = fst (L_run l ops) /\
  Rr1 (snd (arun r (len pre) ops)) (pre ++ snd (L_run l ops)) lim.
Proof.
  induction ops as [|o t IH]; intros r pre l lim HR Hd Hf; cbn [arun L_run L_dom L_fits] in *.
  - simpl. split; [reflexivity|]. apply Rr_Rr1. exact HR.
  - apply andb_prop in Hd as [Hd1 Hd2]. apply andb_prop in Hf as [Hf1 Hf2].
    pose proof (astep_sim r pre l lim o HR Hd1 ltac:(lia)) as H.
    destruct (L_step l o) as [[l1 ret] [|]].
    + destruct H as (r1 & Hs & HR1). rewrite Hs. simpl.
      assert (Hgt : apiGetTop r1 (len pre) = len l1).
      { unfold apiGetTop. destruct HR1 as [Ht _ _ _ _ _ _]. rewrite Ht, len_app. lia. }
      split; [|exact HR1]. f_equal. f_equal; [exact Hgt|].
      (* the dump of a state with the message in flight *)
      unfold dump, zseq. rewrite Hgt. replace (Z.to_nat (len l1)) with (length l1) by (unfold len; lia).
      apply map_seq_rd. intros j Hj. change (Z.of_nat 1) with 1.
      pose proof HR1 as [Ht Hc Htl Hlc Hl _ _].
      unfold apiGet. destruct (1 + j >? 0) eqn:E; [|lia].
      rewrite len_app in Ht. pose proof (len_nonneg pre).
      destruct (len pre + (1 + j) - 1 <? top r1) eqn:E2; [|lia].
      unfold Get, cap in *. destruct ((len pre + (1 + j) - 1 <? 0) || (len pre + (1 + j) - 1 >=? len (arr r1))) eqn:E3; [lia|].
      cbn [getOr]. replace (rd (arr r1) (len pre + (1 + j) - 1)) with (rd (live r1) (len pre + (1 + j) - 1)).
      * rewrite Hl. replace (len pre + (1 + j) - 1) with (len pre + j) by lia. apply rd_pre_l. lia.
      * unfold live. rewrite rd_firstn. destruct (len pre + (1 + j) - 1 <? top r1) eqn:E4; [reflexivity|lia].
    + destruct H as (r1 & Hs & HR1). rewrite Hs.
      destruct (IH r1 pre l1 lim HR1 Hd2 Hf2) as (H1 & HR').
      destruct (arun r1 (len pre) t) as [tt rf]. destruct (L_run l1 t) as [lt lf]. simpl in *.
      rewrite (apiGetTop_ok _ _ _ _ HR1), (dump_ok _ _ _ _ HR1). subst tt.
      split; [reflexivity|exact HR'].
Qed.

(* SetTop on the registry: nil-extends or truncates the live list, and the cells it drops are cleared *)
Lemma settop_spec_lemma : forall r l lim t,
  Rr r l lim -> 0 <= t <= lim ->
  exists r', SetTop r t = Ok r' /\ Rr r' (resizeN l t) lim /\
             (forall i, t <= i < len l -> rd (arr r') i = None) /\
             (forall i, len l <= i < t -> rd (arr r') i = cNil).
Proof.
  intros r l lim t HR Ht. pose proof (len_nonneg l).
  destruct (SetTop_ok r l lim t HR Ht) as (r' & Hs & HR'). exists r'. split; [exact Hs|]. split; [exact HR'|].
  unfold SetTop in Hs. destruct (t <? 0) eqn:E; [lia|].
  destruct (checkSize_ok r l lim t HR) as (r1 & Ecs & HR1 & Hc1 & Ht1 & _ & _); [lia|].
  rewrite Ecs in Hs. cbn [bind] in Hs. inversion Hs; subst r'. clear Hs.
  pose proof HR1 as [Ht1' Hcc Hlc1 _ _ _]. unfold cap in *. cbn [arr with_arr_top].
  split; intros i Hi; rd_norm; cases_if; try lia; reflexivity.
Qed.

(* reads outside the list give nil; the boundary indices are outside *)
Lemma get_outside_nil_lemma : forall (l : list cell) idx,
  validIdx (len l) idx = false -> L_get l idx = cNil.
Proof. intros l idx H. unfold L_get. now rewrite H. Qed.

Lemma boundary_invalid_lemma : forall n, 0 <= n ->
  validIdx n 0 = false /\ validIdx n (n + 1) = false /\ validIdx n (- (n + 1)) = false /\
  (forall k, n < k -> validIdx n k = false /\ validIdx n (- k) = false) /\
  (forall k, 1 <= k <= n -> validIdx n k = true /\ validIdx n (- k) = true /\
                            absIndex n (- k) = n - k + 1).
Proof.
  intros n Hn. unfold validIdx, absIndex. repeat split; intros; cases_if; lia.
Qed.
