(* Proofs about Stack/Registry.v: the growing registry refines the unbounded list of live cells
   below the limit max(cap, maxSize) and refuses (handler called, nothing changed) exactly above it. *)
From GL Require Import Stack.Registry Stack.RegSpec Stack.ArrayFacts.
From Coq Require Import Lia ZifyBool.

Lemma Rr_rd r l lim i : Rr r l lim -> 0 <= i < top r -> rd (arr r) i = rd l i.
Proof.
  intros [Ht Hc Hlc Hl _ _] Hi. rewrite <- Hl. unfold live. rewrite rd_firstn.
  destruct (i <? top r) eqn:E; [reflexivity|lia].
Qed.

Lemma Rr_build r1 l lim a' t' l' :
  Rr r1 l lim -> len a' = cap r1 -> 0 <= t' <= limit r1 -> len l' = t' ->
  (forall i, 0 <= i < t' -> rd a' i = rd l' i) ->
  Rr (with_arr_top r1 a' t') l' lim.
Proof.
  intros [Ht Hc Hlc Hl Hlim Hg] Ha Ht' Hl' Hrd. constructor; simpl; unfold cap in *; simpl; try lia.
  unfold live; simpl. apply list_eq_rd.
  - rewrite len_firstn. lia.
  - intros i Hi. rewrite len_firstn in Hi. rewrite rd_firstn.
    destruct (i <? t') eqn:E; [apply Hrd; lia|lia].
Qed.

Lemma Rr_new init grow mx : 0 <= init -> 0 <= grow \/ mx <= init -> Rr (newRegistry init grow mx) [] (Z.max init mx).
Proof.
  intros. constructor; simpl; unfold cap; simpl; rewrite ?len_fresh; try lia.
  - reflexivity.
  - reflexivity.
Qed.

(* ---------- checkSize ---------- *)

Lemma checkSize_over r l lim req : Rr r l lim -> lim < req -> checkSize r req = Overflow.
Proof.
  intros [Ht Hc Hlc Hl Hlim Hg] H. unfold checkSize, resize.
  destruct (req >? limit r) eqn:E; [|lia].
  destruct (req + growBy r >? maxSize r) eqn:E2.
  - destruct (maxSize r <? req) eqn:E3; [reflexivity|lia].
  - destruct (req + growBy r <? req) eqn:E3; [reflexivity|lia].
Qed.

Lemma checkSize_ok r l lim req : Rr r l lim -> req <= lim ->
  exists r1, checkSize r req = Ok r1 /\ Rr r1 l lim /\ req <= limit r1 /\ top r1 = top r /\
             growBy r1 = growBy r /\ maxSize r1 = maxSize r.
Proof.
  intros HR H. pose proof HR as [Ht Hc Hlc Hl Hlim Hg]. unfold checkSize, resize.
  pose proof (len_nonneg l) as Hl0.
  destruct (req >? limit r) eqn:E.
  2:{ exists r. repeat split; auto; lia. }
  set (ns := if req + growBy r >? maxSize r then maxSize r else req + growBy r).
  assert (Hns : req <= ns /\ ns <= maxSize r) by (unfold ns; destruct (req + growBy r >? maxSize r) eqn:E2; lia).
  destruct (ns <? req) eqn:E3; [lia|].
  exists (with_limit (forceResize r ns) ns).
  assert (Hlen : len (arr (forceResize r ns)) = ns).
  { unfold forceResize; simpl. rewrite len_firstn, len_app, len_firstn, len_fresh. unfold cap in *. lia. }
  assert (HR' : Rr (with_limit (forceResize r ns) ns) l lim).
  { constructor; simpl; unfold cap in *; simpl; try lia.
    { rewrite len_firstn, len_app, len_firstn, len_fresh. lia. }
    rewrite <- Hl. unfold live, forceResize; simpl. apply list_eq_rd.
    + rewrite !len_firstn, len_app, len_firstn, len_fresh. lia.
    + intros i Hi. rewrite !len_firstn, len_app, len_firstn, len_fresh in Hi.
      rewrite !rd_firstn. destruct (i <? top r) eqn:E4; [|lia].
      destruct (i <? ns) eqn:E5; [|lia]. rewrite rd_app by lia. rewrite len_firstn.
      destruct (i <? Z.min (Z.max 0 (top r)) (len (arr r))) eqn:E6; [|lia].
      rewrite rd_firstn. rewrite E4. reflexivity. }
  split; [reflexivity|]. split; [exact HR'|]. simpl. repeat split; auto; lia.
Qed.

(* ---------- single operations, on the live list ---------- *)

Ltac rr_cs HR Hle :=
  let r1 := fresh "r1" in let E := fresh "Ecs" in let HR1 := fresh "HR1" in
  let Hc1 := fresh "Hc1" in let Ht1 := fresh "Ht1" in
  destruct (checkSize_ok _ _ _ _ HR Hle) as (r1 & E & HR1 & Hc1 & Ht1 & _ & _);
  rewrite E; cbn [bind].

Ltac rdsimp :=
  repeat (rewrite ?rd_fill, ?rd_upd, ?rd_firstn, ?rd_repeat, ?rd_single, ?rd_nil, ?len_fill, ?len_upd,
          ?len_firstn, ?len_app, ?len_repeat, ?len_cons, ?len_skipn).

Lemma SetTop_ok r l lim t : Rr r l lim -> 0 <= t <= lim ->
  exists r', SetTop r t = Ok r' /\ Rr r' (resizeN l t) lim.
Proof.
  intros HR Ht. pose proof (len_nonneg l). unfold SetTop. destruct (t <? 0) eqn:E; [lia|].
  assert (Hle : t <= lim) by lia. rr_cs HR Hle.
  eexists. split; [reflexivity|].
  pose proof HR1 as [Ht1' Hcc Hlc1 Hl1 _ _].
  apply (Rr_build _ l); auto.
  - rdsimp. reflexivity.
  - lia.
  - unfold resizeN. rdsimp. lia.
  - intros i Hi. unfold resizeN. rdsimp. unfold cap in *. rewrite rd_app by lia. rdsimp.
    destruct (Z_lt_dec i (len l)).
    + rewrite (Rr_rd _ _ _ i HR1) by lia.
      repeat match goal with |- context [if ?b then _ else _] => destruct b eqn:? end; try lia; reflexivity.
    + repeat match goal with |- context [if ?b then _ else _] => destruct b eqn:? end; try lia; try reflexivity.
Qed.

Lemma Push_ok r l lim v : Rr r l lim -> len l + 1 <= lim ->
  exists r', Push r v = Ok r' /\ Rr r' (l ++ [v]) lim.
Proof.
  intros HR Hn. pose proof (len_nonneg l). unfold Push. pose proof HR as [Ht0 _ _ _ _ _].
  assert (Hle : top r + 1 <= lim) by lia. rr_cs HR Hle.
  eexists. split; [reflexivity|]. pose proof HR1 as [Ht1' Hcc Hlc1 Hl1 _ _].
  apply (Rr_build _ l); auto.
  - rdsimp. reflexivity.
  - lia.
  - rewrite len_app. unfold len at 2; simpl. lia.
  - intros i Hi. rdsimp. unfold cap in *. rewrite rd_app by lia. rdsimp.
    destruct (Z_lt_dec i (len l)).
    + rewrite (Rr_rd _ _ _ i HR1) by lia.
      repeat match goal with |- context [if ?b then _ else _] => destruct b eqn:? end; try lia; reflexivity.
    + repeat match goal with |- context [if ?b then _ else _] => destruct b eqn:? end; try lia; try reflexivity.
Qed.

Lemma Pop_ok r l lim : Rr r l lim -> 0 < len l ->
  exists r', Pop r = Ok (r', rd l (len l - 1)) /\ Rr r' (firstn (Z.to_nat (len l - 1)) l) lim.
Proof.
  intros HR Hn. pose proof HR as [Ht0 Hc0 Hlc0 Hl0 Hlim0 Hg0]. unfold Pop.
  destruct ((top r <=? 0) || (top r >? cap r)) eqn:E; [lia|].
  rewrite (Rr_rd _ _ _ (top r - 1) HR) by lia. rewrite Ht0.
  eexists. split; [reflexivity|].
  apply (Rr_build _ l); auto.
  - now rewrite len_upd.
  - lia.
  - rdsimp. lia.
  - intros i Hi. rdsimp. rewrite (Rr_rd _ _ _ i HR) by lia.
    repeat match goal with |- context [if ?b then _ else _] => destruct b eqn:? end; try lia; reflexivity.
Qed.

Lemma Get_ok r l lim reg : Rr r l lim -> 0 <= reg < len l -> Get r reg = Ok (rd l reg).
Proof.
  intros HR Hn. pose proof HR as [Ht0 Hc0 Hlc0 _ _ _]. unfold Get.
  destruct ((reg <? 0) || (reg >=? cap r)) eqn:E; [lia|].
  now rewrite (Rr_rd _ _ _ reg HR) by lia.
Qed.

Lemma Set_ok r l lim reg v : Rr r l lim -> 0 <= reg <= len l -> reg + 1 <= lim ->
  exists r', Set_ r reg v = Ok r' /\ Rr r' (setL l reg v) lim.
Proof.
  intros HR Hreg Hn. pose proof (len_nonneg l). unfold Set_. pose proof HR as [Ht0 _ _ _ _ _].
  destruct (reg <? 0) eqn:E; [lia|]. rr_cs HR Hn.
  eexists. split; [reflexivity|]. pose proof HR1 as [Ht1' Hcc Hlc1 Hl1 _ _].
  apply (Rr_build _ l); auto.
  - now rewrite len_upd.
  - destruct (reg >=? top r1) eqn:E2; lia.
  - unfold setL. destruct (reg <? len l) eqn:E2; destruct (reg >=? top r1) eqn:E3; try lia.
    + now rewrite len_upd.
    + rewrite len_app. unfold len at 2; simpl. lia.
  - intros i Hi. unfold setL. unfold cap in *.
    destruct (reg <? len l) eqn:E2; destruct (reg >=? top r1) eqn:E3; try lia; rdsimp.
    + rewrite (Rr_rd _ _ _ i HR1) by lia.
      repeat match goal with |- context [if ?b then _ else _] => destruct b eqn:? end; try lia; reflexivity.
    + rewrite rd_app by lia. rdsimp. destruct (Z_lt_dec i (len l)).
      * rewrite (Rr_rd _ _ _ i HR1) by lia.
        repeat match goal with |- context [if ?b then _ else _] => destruct b eqn:? end; try lia; reflexivity.
      * repeat match goal with |- context [if ?b then _ else _] => destruct b eqn:? end; try lia; reflexivity.
Qed.

Lemma FillNil_ok r l lim regm n : Rr r l lim -> 0 <= regm <= len l -> 0 <= n -> regm + n <= lim ->
  exists r', FillNil r regm n = Ok r' /\ Rr r' (fillNilL l regm n) lim.
Proof.
  intros HR Hreg Hn0 Hn. pose proof (len_nonneg l). unfold FillNil. pose proof HR as [Ht0 _ _ _ _ _].
  destruct ((regm <? 0) || (n <? 0)) eqn:E; [lia|]. rr_cs HR Hn.
  eexists. split; [reflexivity|]. pose proof HR1 as [Ht1' Hcc Hlc1 Hl1 _ _].
  apply (Rr_build _ l); auto.
  - rdsimp. reflexivity.
  - lia.
  - unfold fillNilL. rdsimp. lia.
  - intros i Hi. unfold fillNilL. unfold cap in *. rdsimp. rewrite rd_app by lia. rdsimp.
    destruct (Z_lt_dec i regm).
    + rewrite (Rr_rd _ _ _ i HR1) by lia.
      repeat match goal with |- context [if ?b then _ else _] => destruct b eqn:? end; try lia; reflexivity.
    + repeat match goal with |- context [if ?b then _ else _] => destruct b eqn:? end; try lia; reflexivity.
Qed.

(* ---------- CopyRange: the loop on two arrays that agree where it reads ---------- *)

Lemma copyLoop_len : forall k a regv start lim i, len (copyLoop a regv start lim i k) = len a.
Proof. induction k as [|k IH]; intros; simpl; auto. rewrite IH. apply len_upd. Qed.

Lemma copyLoop_agree regv start lim T : forall k a b i,
  0 <= regv -> 0 <= i -> lim <= T ->
  regv + i + Z.of_nat k <= len a -> regv + i + Z.of_nat k <= len b ->
  (forall j, 0 <= j < T -> rd a j = rd b j) ->
  (forall j, regv <= j < regv + i -> rd a j = rd b j) ->
  (forall j, 0 <= j < T -> rd (copyLoop a regv start lim i k) j = rd (copyLoop b regv start lim i k) j) /\
  (forall j, regv <= j < regv + i + Z.of_nat k ->
             rd (copyLoop a regv start lim i k) j = rd (copyLoop b regv start lim i k) j).
Proof.
  induction k as [|k IH]; intros a b i Hr Hi Hl Ha Hb HT HW; simpl.
  - split; [exact HT|]. intros j Hj. apply HW. lia.
  - set (src := start + i).
    assert (Hc : (if (src >=? lim) || (src <? 0) then cNil else rd a src) =
                 (if (src >=? lim) || (src <? 0) then cNil else rd b src)).
    { destruct ((src >=? lim) || (src <? 0)) eqn:E; [reflexivity|]. apply HT. lia. }
    rewrite Hc. set (c := if (src >=? lim) || (src <? 0) then cNil else rd b src).
    destruct (IH (upd a (regv + i) c) (upd b (regv + i) c) (i + 1)) as [H1 H2]; rewrite ?len_upd; try lia.
    + intros j Hj. rewrite !rd_upd. rewrite HT by lia.
      repeat match goal with |- context [if ?b then _ else _] => destruct b eqn:? end; try lia; reflexivity.
    + intros j Hj. rewrite !rd_upd. destruct (Z.eq_dec j (regv + i)).
      * repeat match goal with |- context [if ?b then _ else _] => destruct b eqn:? end; try lia; reflexivity.
      * rewrite HW by lia.
        repeat match goal with |- context [if ?b then _ else _] => destruct b eqn:? end; try lia; reflexivity.
    + split; [exact H1|]. intros j Hj. apply H2. lia.
Qed.

Lemma CopyRange_ok r l lim regv start limit n :
  Rr r l lim -> 0 <= regv <= len l -> 0 <= n -> regv + n <= lim ->
  exists r', CopyRange r regv start limit n = Ok r' /\ Rr r' (copyRangeL l regv start limit n) lim.
Proof.
  intros HR Hreg Hn0 Hn. pose proof (len_nonneg l). unfold CopyRange. pose proof HR as [Ht0 _ _ _ _ _].
  destruct ((regv <? 0) || (n <? 0)) eqn:E; [lia|]. rr_cs HR Hn.
  eexists. split; [reflexivity|]. pose proof HR1 as [Ht1' Hcc Hlc1 Hl1 _ _].
  unfold copyRangeL. rewrite Ht1'.
  set (lm := if (limit =? -1) || (limit >? len l) then len l else limit).
  set (l0 := l ++ repeat None (Z.to_nat (regv + n - len l))).
  assert (Hl0 : len l0 = Z.max (len l) (regv + n)) by (unfold l0; rewrite len_app, len_repeat; lia).
  assert (Hlm : lm <= len l) by (unfold lm; destruct ((limit =? -1) || (limit >? len l)) eqn:E2; lia).
  destruct (copyLoop_agree regv start lm (len l) (Z.to_nat n) (arr r1) l0 0) as [HA HB]; unfold cap in *; try lia.
  { intros j Hj. rewrite (Rr_rd _ _ _ j HR1) by lia. unfold l0. rewrite rd_app by lia.
    destruct (j <? len l) eqn:E2; [reflexivity|lia]. }
  apply (Rr_build _ l); auto.
  - rewrite len_fill, copyLoop_len. reflexivity.
  - unfold cap. lia.
  - rewrite len_firstn, copyLoop_len. lia.
  - intros i Hi. rewrite rd_fill, rd_firstn. rewrite len_fill || idtac. rewrite copyLoop_len.
    destruct (i <? regv + n) eqn:E3; [|lia].
    destruct ((0 <=? i) && (i <? len (arr r1)) && (regv + n <=? i) && (i <? len l)) eqn:E4; [lia|].
    destruct (Z_lt_dec i (len l)); [apply HA; lia|apply HB; lia].
Qed.

(* ---------- Insert: the shifting loop ---------- *)

(* the array part of insertLoop when the capacity is there: a[t+1] := a[t], t-- *)
Fixpoint shiftUp (a : list cell) (t : Z) (k : nat) : list cell :=
  match k with O => a | S k' => shiftUp (upd a (t + 1) (rd a t)) (t - 1) k' end.

Lemma shiftUp_len : forall k a t, len (shiftUp a t k) = len a.
Proof. induction k as [|k IH]; intros; simpl; auto. rewrite IH. apply len_upd. Qed.

Lemma shiftUp_rd : forall k a t p, Z.of_nat k <= t + 1 -> t + 1 < len a ->
  rd (shiftUp a t k) p = if (t - Z.of_nat k + 1 <? p) && (p <=? t + 1) then rd a (p - 1) else rd a p.
Proof.
  induction k as [|k IH]; intros a t p Hk Hlen; simpl shiftUp.
  - destruct ((t - Z.of_nat 0 + 1 <? p) && (p <=? t + 1)) eqn:E; [lia|reflexivity].
  - rewrite IH by (rewrite ?len_upd; lia). rewrite !rd_upd.
    repeat match goal with |- context [if ?b then _ else _] => destruct b eqn:? end; try lia; try reflexivity.
    all: try (f_equal; lia).
    all: try (rewrite rd_out by lia; symmetry; apply rd_out; lia).
Qed.

Lemma Set_nogrow r regi v : 0 <= regi -> regi + 1 <= limit r ->
  Set_ r regi v = Ok (with_arr_top r (upd (arr r) regi v) (if regi >=? top r then regi + 1 else top r)).
Proof.
  intros. unfold Set_, checkSize. destruct (regi <? 0) eqn:E; [lia|].
  destruct (regi + 1 >? limit r) eqn:E2; [lia|]. reflexivity.
Qed.

Lemma insertLoop_nogrow : forall k r t,
  0 <= t + 1 - Z.of_nat k -> t + 1 < limit r -> t + 1 <= top r ->
  insertLoop r t k = Ok (with_arr_top r (shiftUp (arr r) t k) (if (k =? 0)%nat then top r else Z.max (top r) (t + 2))).
Proof.
  induction k as [|k IH]; intros r t Hk Hc Ht; simpl insertLoop.
  - simpl. destruct r; reflexivity.
  - rewrite Set_nogrow by lia. cbn [bind]. rewrite IH; unfold cap in *; simpl; rewrite ?len_upd; try lia.
    + f_equal. unfold with_arr_top; simpl. f_equal.
      destruct (t + 1 >=? top r) eqn:E; destruct k; simpl; lia.
    + destruct (t + 1 >=? top r) eqn:E; lia.
Qed.

Lemma Insert_ok r l lim v reg : Rr r l lim -> 0 <= reg <= len l -> len l + 1 <= lim ->
  exists r', Insert r v reg = Ok r' /\ Rr r' (insertL l v reg) lim.
Proof.
  intros HR Hreg Hn. pose proof (len_nonneg l). pose proof HR as [Ht0 Hc0 Hlc0 _ _ _]. unfold Insert.
  destruct (reg <? 0) eqn:E; [lia|].
  destruct (reg >=? top r) eqn:E2.
  - (* append *)
    assert (reg = len l) by lia. subst reg.
    destruct (Set_ok r l lim (len l) v HR) as (r' & Hs & HR'); try lia.
    exists r'. split; [exact Hs|].
    replace (insertL l v (len l)) with (setL l (len l) v); [exact HR'|].
    unfold insertL, setL. destruct (len l <? len l) eqn:E3; [lia|].
    rewrite firstn_all_len. unfold len. rewrite Nat2Z.id, skipn_all. reflexivity.
  - (* shift up, then store *)
    assert (Hk : Z.to_nat (top r - reg) = S (Z.to_nat (top r - reg - 1))) by lia.
    rewrite Hk. cbn [insertLoop].
    (* the first Set makes room; afterwards nothing grows *)
    unfold Set_ at 1. destruct (top r - 1 + 1 <? 0) eqn:E3; [lia|].
    assert (Hle : top r - 1 + 1 + 1 <= lim) by lia. rr_cs HR Hle.
    pose proof HR1 as [Ht1' Hcc Hlc1 Hl1 _ _].
    set (r2 := with_arr_top r1 (upd (arr r1) (top r - 1 + 1) (rd (arr r) (top r - 1)))
                 (if top r - 1 + 1 >=? top r1 then top r - 1 + 1 + 1 else top r1)).
    assert (Htop2 : top r2 = top r + 1) by (unfold r2; simpl; destruct (top r - 1 + 1 >=? top r1) eqn:E4; lia).
    assert (Hcap2 : cap r2 = cap r1) by (unfold r2, cap; simpl; apply len_upd).
    assert (Hlim2 : limit r2 = limit r1) by reflexivity.
    unfold cap in Hcap2.
    rewrite insertLoop_nogrow; try lia.
    cbn [bind].
    assert (HT : (if (Z.to_nat (top r - reg - 1) =? 0)%nat then top r2 else Z.max (top r2) (top r - 1 - 1 + 2)) = top r + 1).
    { destruct (Z.to_nat (top r - reg - 1) =? 0)%nat; lia. }
    rewrite HT.
    rewrite Set_nogrow; [|lia|cbn [limit with_arr_top]; lia].
    cbn [top arr with_arr_top].
    destruct (reg >=? top r + 1) eqn:E5; [lia|].
    eexists. split; [reflexivity|].
    change (Rr (with_arr_top r1 (upd (shiftUp (arr r2) (top r - 1 - 1) (Z.to_nat (top r - reg - 1))) reg v) (top r + 1)) (insertL l v reg) lim).
    apply (Rr_build _ l); auto.
    + rewrite len_upd, shiftUp_len. unfold cap. exact Hcap2.
    + lia.
    + unfold insertL. rdsimp. lia.
    + intros i Hi'. rewrite Ht0 in Hi'.
      unfold insertL. rewrite rd_upd, shiftUp_len.
      unfold cap in *. rewrite shiftUp_rd by lia.
      unfold r2; cbn [arr with_arr_top]. rewrite !rd_upd. rewrite rd_app by lia. rdsimp.
      rewrite (Rr_rd _ _ _ (top r - 1) HR) by lia.
      unfold cap in *.
      destruct (Z_lt_dec i reg).
      * rewrite (Rr_rd _ _ _ i HR1) by lia.
        repeat match goal with |- context [if ?b then _ else _] => destruct b eqn:? end; try lia; reflexivity.
      * destruct (Z.eq_dec i reg).
        -- subst i. replace (reg - Z.min (Z.max 0 reg) (len l)) with 0 by lia. rewrite rd_cons_0.
           repeat match goal with |- context [if ?b then _ else _] => destruct b eqn:? end; try lia; reflexivity.
        -- replace (i - Z.min (Z.max 0 reg) (len l)) with (i - reg) by lia.
           rewrite rd_cons_S by lia. rewrite rd_skipn by lia.
           replace (i - reg - 1 + reg) with (i - 1) by lia.
           destruct (Z.eq_dec i (len l)).
           ++ subst i.
              repeat match goal with |- context [if ?b then _ else _] => destruct b eqn:? end; try lia; try reflexivity.
              all: try (rewrite (Rr_rd _ _ _ _ HR1) by lia; reflexivity).
              all: try (f_equal; lia).
           ++ rewrite (Rr_rd _ _ _ (i - 1) HR1) by lia.
              repeat match goal with |- context [if ?b then _ else _] => destruct b eqn:? end; try lia; try reflexivity.
              all: try (rewrite (Rr_rd _ _ _ _ HR1) by lia; reflexivity).
              all: try (f_equal; lia).
Qed.

Lemma Rr_Rr1 r l lim : Rr r l lim -> Rr1 r l lim.
Proof. intros [? ? ? ? ? ?]. constructor; auto; lia. Qed.

(* raiseError's push: always possible; the array may get one cell longer, the limit stays *)
Lemma raisePush_ok r l lim v : Rr r l lim ->
  exists r', raisePush r v = Ok r' /\ Rr1 r' (l ++ [v]) lim.
Proof.
  intros HR. pose proof (len_nonneg l). pose proof HR as [Ht0 Hc0 Hlc0 Hl0 Hlim0 Hg0].
  unfold raisePush, IsFull, pushRaw, cap in *.
  set (r1 := if top r >=? len (arr r) then forceResize r (top r + 1) else r).
  assert (H1 : top r1 = top r /\ limit r1 = limit r /\ maxSize r1 = maxSize r /\ growBy r1 = growBy r /\
               top r < len (arr r1) /\ limit r <= len (arr r1) /\
               forall i, 0 <= i < top r -> rd (arr r1) i = rd l i).
  { unfold r1. destruct (top r >=? len (arr r)) eqn:E.
    - unfold forceResize; simpl. rewrite len_firstn, len_app, len_firstn, len_fresh.
      repeat split; try lia. intros i Hi. rewrite <- Hl0. unfold live.
      rewrite !rd_firstn. rewrite rd_app by lia. rewrite len_firstn. rewrite rd_firstn.
      cases_if; try lia; reflexivity.
    - repeat split; try lia. intros i Hi. apply (Rr_rd r l lim i HR). lia. }
  destruct H1 as (Q1 & Q2 & Q3 & Q4 & Q5 & Q6 & Q7).
  destruct ((top r1 <? 0) || (top r1 >=? len (arr r1))) eqn:E; [lia|].
  eexists. split; [reflexivity|].
  assert (Hl1 : len (l ++ [v]) = len l + 1) by (rewrite len_app, len_cons; unfold len at 2; simpl; lia).
  constructor; simpl; unfold cap; simpl; rewrite ?len_upd, ?Hl1; try lia.
  - unfold live; simpl. apply list_eq_rd.
    + rewrite len_firstn, len_upd, Hl1. lia.
    + intros i Hi. rewrite len_firstn, len_upd in Hi. rewrite rd_firstn, rd_upd, rd_app by lia.
      rewrite rd_single. destruct (Z.eq_dec i (top r)).
      * cases_if; try lia; reflexivity.
      * rewrite Q7 by lia. cases_if; try lia; reflexivity.
Qed.

(* after the error has been caught: the registry is cut back to a top within the limit *)
Lemma SetTop_down1 r l lim t : Rr1 r l lim -> 0 <= t <= len l -> t <= limit r ->
  exists r', SetTop r t = Ok r' /\ Rr r' (firstn (Z.to_nat t) l) lim.
Proof.
  intros [Ht Hc Htl Hlc Hl Hlim Hg] Ht0 Htlim. unfold SetTop, checkSize.
  destruct (t <? 0) eqn:E; [lia|]. destruct (t >? limit r) eqn:E2; [lia|]. cbn [bind].
  eexists. split; [reflexivity|].
  constructor; simpl; unfold cap in *; simpl; rewrite ?len_fill, ?len_firstn; try lia.
  unfold live; simpl. apply list_eq_rd.
  - rewrite !len_firstn, !len_fill. lia.
  - intros i Hi. rewrite len_firstn, !len_fill in Hi. rewrite <- Hl. unfold live.
    rewrite !rd_firstn, !rd_fill, !len_fill. cases_if; try lia; reflexivity.
Qed.

(* ---------- one step of the operation language ---------- *)

Lemma rstep_sim r l lim o :
  Rr r l lim -> rop_dom (len l) o = true ->
  if rneed (len l) o >? lim then rstep r o = Overflow
  else exists r', rstep r o = Ok (r', snd (lstepR l o)) /\ Rr r' (fst (lstepR l o)) lim.
Proof.
  intros HR Hd. pose proof (len_nonneg l). pose proof HR as [Ht0 Hc0 Hlc0 Hl0 Hlim0 Hg0].
  destruct o as [v| |reg|reg v|t|regv start limit n|regm n|v reg| |dst src]; cbn [rneed rstep lstepR fst snd rop_dom] in *.
  - destruct (len l + 1 >? lim) eqn:E.
    + unfold Push. rewrite (checkSize_over r l lim) by (auto; lia). reflexivity.
    + destruct (Push_ok r l lim (Some v) HR) as (r' & Hp & HR'); [lia|]. rewrite Hp. cbn [bind fst snd]. eauto.
  - destruct (0 >? lim) eqn:E; [lia|].
    destruct (Pop_ok r l lim HR) as (r' & Hp & HR'); [lia|]. rewrite Hp. cbn [bind fst snd]. eauto.
  - destruct (0 >? lim) eqn:E; [lia|]. rewrite (Get_ok r l lim reg HR) by lia. cbn [bind]. eauto.
  - destruct (reg + 1 >? lim) eqn:E.
    + unfold Set_. destruct (reg <? 0) eqn:E2; [lia|]. rewrite (checkSize_over r l lim) by (auto; lia). reflexivity.
    + destruct (Set_ok r l lim reg (Some v) HR) as (r' & Hp & HR'); try lia. rewrite Hp. cbn [bind fst snd]. eauto.
  - destruct (t >? lim) eqn:E.
    + unfold SetTop. destruct (t <? 0) eqn:E2; [lia|]. rewrite (checkSize_over r l lim) by (auto; lia). reflexivity.
    + destruct (SetTop_ok r l lim t HR) as (r' & Hp & HR'); try lia. rewrite Hp. cbn [bind fst snd]. eauto.
  - destruct (regv + n >? lim) eqn:E.
    + unfold CopyRange. destruct ((regv <? 0) || (n <? 0)) eqn:E2; [lia|].
      rewrite (checkSize_over r l lim) by (auto; lia). reflexivity.
    + destruct (CopyRange_ok r l lim regv start limit n HR) as (r' & Hp & HR'); try lia. rewrite Hp. cbn [bind fst snd]. eauto.
  - destruct (regm + n >? lim) eqn:E.
    + unfold FillNil. destruct ((regm <? 0) || (n <? 0)) eqn:E2; [lia|].
      rewrite (checkSize_over r l lim) by (auto; lia). reflexivity.
    + destruct (FillNil_ok r l lim regm n HR) as (r' & Hp & HR'); try lia. rewrite Hp. cbn [bind fst snd]. eauto.
  - destruct (len l + 1 >? lim) eqn:E.
    + unfold Insert. destruct (reg <? 0) eqn:E2; [lia|].
      destruct (reg >=? top r) eqn:E3.
      * unfold Set_. rewrite E2. rewrite (checkSize_over r l lim) by (auto; lia). reflexivity.
      * assert (Hk : Z.to_nat (top r - reg) = S (Z.to_nat (top r - reg - 1))) by lia.
        rewrite Hk. cbn [insertLoop]. unfold Set_ at 1. destruct (top r - 1 + 1 <? 0) eqn:E4; [lia|].
        rewrite (checkSize_over r l lim) by (auto; lia). reflexivity.
    + destruct (Insert_ok r l lim (Some v) reg HR) as (r' & Hp & HR'); try lia. rewrite Hp. cbn [bind fst snd]. eauto.
  - discriminate.
  - destruct (dst + 1 >? lim) eqn:E.
    + rewrite (Get_ok r l lim src HR) by lia. cbn [bind].
      unfold Set_. destruct (dst <? 0) eqn:E2; [lia|]. rewrite (checkSize_over r l lim) by (auto; lia). reflexivity.
    + rewrite (Get_ok r l lim src HR) by lia. cbn [bind].
      destruct (Set_ok r l lim dst (rd l src) HR) as (r' & Hp & HR'); try lia. rewrite Hp. cbn [bind fst snd]. eauto.
Qed.

(* ---------- histories ---------- *)

Lemma Rr_top_live r l lim : Rr r l lim -> top r = len l /\ live r = l.
Proof. intros [? ? ? ? ? ?]; auto. Qed.

Lemma registry_refines_list_lemma : forall ops r l lim,
  Rr r l lim -> ldomR l lim ops = true -> rrun r ops = lrunR l lim ops.
Proof.
  induction ops as [|o t IH]; intros r l lim HR Hd; simpl in *; [reflexivity|].
  apply andb_prop in Hd as [Hd1 Hd2].
  pose proof (rstep_sim r l lim o HR Hd1) as H.
  destruct (rneed (len l) o >? lim) eqn:E.
  - rewrite H. destruct (Rr_top_live _ _ _ HR) as [-> ->]. f_equal. apply IH; auto.
  - destruct H as (r' & Hs & HR'). rewrite Hs.
    destruct (lstepR l o) as [l1 ret] eqn:El. simpl in *.
    destruct (Rr_top_live _ _ _ HR') as [-> ->]. f_equal. apply IH; auto.
Qed.

Lemma registry_grow_transparent_lemma : forall r l lim o,
  Rr r l lim -> rop_dom (len l) o = true -> rneed (len l) o <= lim ->
  exists r', rstep r o = Ok (r', snd (lstepR l o)) /\
             Rr r' (fst (lstepR l o)) lim.
Proof.
  intros r l lim o HR Hd Hn. pose proof (rstep_sim r l lim o HR Hd) as H.
  destruct (rneed (len l) o >? lim) eqn:E; [lia|exact H].
Qed.

Lemma registry_overflow_error_lemma : forall r l lim o,
  Rr r l lim -> rop_dom (len l) o = true -> lim < rneed (len l) o ->
  rstep r o = Overflow.
Proof.
  intros r l lim o HR Hd Hn. pose proof (rstep_sim r l lim o HR Hd) as H.
  destruct (rneed (len l) o >? lim) eqn:E; [exact H|lia].
Qed.

Lemma raise_has_room_lemma : forall r l lim v,
  Rr r l lim -> exists r', raisePush r v = Ok r' /\ Rr1 r' (l ++ [v]) lim.
Proof. intros r l lim v H. exact (raisePush_ok r l lim v H). Qed.
