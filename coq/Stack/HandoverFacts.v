(* Proofs about the hand-over of values from a coroutine to its resumer (Stack/Handover.v). *)
From GL Require Import Stack.Registry Stack.RegSpec Stack.ArrayFacts Stack.RegistryFacts Stack.Handover.
From Coq Require Import Lia.

Lemma pushAll_ok : forall vs p l lim,
  Rr p l lim -> len l + len vs <= lim ->
  exists p', pushAll p vs = Ok p' /\ Rr p' (l ++ vs) lim.
Proof.
  induction vs as [|v t IH]; intros p l lim HR H; simpl.
  - exists p. rewrite app_nil_r. auto.
  - rewrite len_cons in H. pose proof (len_nonneg t).
    destruct (Push_ok p l lim v HR ltac:(lia)) as (p1 & E1 & R1). rewrite E1. simpl.
    destruct (IH p1 (l ++ [v]) lim R1) as (p' & E' & R').
    { rewrite len_app, len_cons, len_nil. lia. }
    exists p'. split; [exact E'|]. rewrite <- app_assoc in R'. exact R'.
Qed.

(* a Push that does not fit raises before anything is written; the pushes before it have happened *)
Lemma pushAll_over : forall vs p l lim,
  Rr p l lim -> lim < len l + len vs -> pushAll p vs = Overflow.
Proof.
  induction vs as [|v t IH]; intros p l lim HR H; simpl.
  - rewrite len_nil in H. pose proof HR as [Ht Hc Hlc _ Hlim _]. lia.
  - rewrite len_cons in H.
    destruct (Z_le_dec (len l + 1) lim) as [Hle|Hgt].
    + destruct (Push_ok p l lim v HR Hle) as (p1 & E1 & R1). rewrite E1. simpl.
      apply (IH p1 (l ++ [v]) lim R1). rewrite len_app, len_cons, len_nil. lia.
    + unfold Push. pose proof HR as [Ht _ _ _ _ _].
      rewrite (checkSize_over p l lim (top p + 1) HR) by lia. reflexivity.
Qed.

Lemma fits_iff p l lim need : Rr p l lim ->
  ((need <=? limit p) || (need <=? maxSize p)) = (need <=? lim).
Proof.
  intros [_ _ _ _ Hlim _]. subst lim.
  destruct (need <=? limit p) eqn:A, (need <=? maxSize p) eqn:B, (need <=? Z.max (limit p) (maxSize p)) eqn:C;
    simpl; try reflexivity; lia.
Qed.

Lemma len_lastn n l : 0 <= n <= len l -> len (lastn n l) = n.
Proof. intros H. unfold lastn. rewrite len_skipn. lia. Qed.

Lemma Rr_len_le r l lim : Rr r l lim -> len l <= lim.
Proof. intros [Ht Hc _ _ Hlim _]. lia. Qed.

Lemma resizeN_down (l : list cell) t : 0 <= t <= len l -> resizeN l t = firstn (Z.to_nat t) l.
Proof.
  intros H. unfold resizeN. replace (Z.to_nat (t - len l)) with O by lia. simpl. apply app_nil_r.
Qed.

(* The hand-over is all-or-nothing, and in both outcomes the coroutine is left as after a completed
   hand-over (values dropped, the epilogue run): never torn. *)
Lemma handover_all_or_nothing_lemma : forall p c l lc lim limc wrapped flag nargs,
  Rr p l lim -> Rr c lc limc -> 0 <= nargs <= len lc ->
  let vs := handed wrapped flag (lastn nargs lc) in
  let lc' := firstn (Z.to_nat (len lc - nargs)) lc in
  (len l + len vs <= lim ->
     exists p' c', handover p c wrapped flag nargs = HoDone p' c' /\ Rr p' (l ++ vs) lim /\ Rr c' lc' limc) /\
  (lim < len l + len vs ->
     exists c', handover p c wrapped flag nargs = HoRefused p c' /\ Rr c' lc' limc).
Proof.
  intros p c l lc lim limc wrapped flag nargs HP HC Hn vs lc'.
  pose proof HP as [Htp _ _ _ _ _]. pose proof HC as [Htc _ _ Hlive _ _].
  pose proof (Rr_len_le _ _ _ HC) as Hlc.
  assert (Hvs : len vs = nargs + (if wrapped then 0 else 1)).
  { unfold vs, handed. destruct wrapped; [|rewrite len_cons]; rewrite len_lastn by lia; lia. }
  destruct (SetTop_ok c lc limc (top c - nargs) HC ltac:(lia)) as (c1 & ES & RS).
  rewrite resizeN_down in RS by lia. rewrite Htc in RS. fold lc' in RS.
  unfold handover, handover_gen.
  replace (top p + nargs + (if wrapped || negb true then 0 else 1)) with (len l + len vs)
    by (rewrite Hvs, Htp; destruct wrapped; cbn [orb negb]; lia).
  rewrite (fits_iff p l lim _ HP). rewrite Hlive. fold (handed wrapped flag (lastn nargs lc)). fold vs.
  split; intros H.
  - destruct (pushAll_ok vs p l lim HP H) as (p' & EP & RP).
    replace (len l + len vs <=? lim) with true by lia. rewrite EP, ES. eauto.
  - replace (len l + len vs <=? lim) with false by lia. rewrite ES. eauto.
Qed.

(* without counting the status boolean in the pre-check (the seeded change C12-9) the hand-over is
   torn exactly at the boundary: the values fit, the boolean does not *)
Lemma handover_nocount_torn_lemma : forall p c l lc lim limc flag nargs,
  Rr p l lim -> Rr c lc limc -> 0 <= nargs <= len lc -> len l + nargs = lim ->
  handover_gen false p c false flag nargs = HoTorn.
Proof.
  intros p c l lc lim limc flag nargs HP HC Hn Hb.
  pose proof HP as [Htp _ _ _ _ _]. pose proof HC as [_ _ _ Hlive _ _].
  unfold handover_gen. simpl orb. cbn [negb].
  replace (top p + nargs + 0) with lim by lia.
  rewrite (fits_iff p l lim _ HP). replace (lim <=? lim) with true by lia.
  rewrite Hlive. rewrite (pushAll_over (flag :: lastn nargs lc) p l lim HP); [reflexivity|].
  rewrite len_cons, len_lastn by lia. lia.
Qed.
