(* Proofs about the context bookkeeping (Stack/CtxTree.v): for every in-domain history the context
   of a live thread is not done, a dead thread whose derived contexts are all released is released. *)
From GL Require Import Stack.CtxTree.
From Coq Require Import Lia.

(* ---------- lists ---------- *)

Lemma length_setn {A} (x : A) : forall l i, length (setn i x l) = length l.
Proof. induction l as [|y t IH]; intros [|i]; simpl; auto. Qed.

Lemma nth_error_setn_eq {A} (x : A) : forall l i, (i < length l)%nat -> nth_error (setn i x l) i = Some x.
Proof. induction l as [|y t IH]; intros [|i] H; simpl in *; try lia; auto. apply IH. lia. Qed.

Lemma nth_error_setn_neq {A} (x : A) : forall l i j, i <> j -> nth_error (setn i x l) j = nth_error l j.
Proof. induction l as [|y t IH]; intros [|i] [|j] H; simpl; auto; try congruence. Qed.

Lemma map_setn {A B} (g : A -> B) (x : A) : forall l i, map g (setn i x l) = setn i (g x) (map g l).
Proof. induction l as [|y t IH]; intros [|i]; simpl; auto. f_equal. apply IH. Qed.

Lemma setn_same {A} : forall (l : list A) i x, nth_error l i = Some x -> setn i x l = l.
Proof. induction l as [|y t IH]; intros [|i] x H; simpl in *; try discriminate; auto; try congruence. f_equal. auto. Qed.

Lemma nth_error_lt {A} (l : list A) i x : nth_error l i = Some x -> (i < length l)%nat.
Proof. intros H. apply nth_error_Some. congruence. Qed.

(* ---------- counting the unreleased contexts derived from node p ---------- *)

Definition key (p : nat) (n : cnode) : bool :=
  match ncreator n with Some q => Nat.eqb q p | None => false end && negb (nreleased n).
Definition b2z (b : bool) : Z := if b then 1 else 0.
Fixpoint cnt (p : nat) (f : forest) : Z :=
  match f with [] => 0 | n :: t => b2z (key p n) + cnt p t end.

Lemma cnt_nonneg p f : 0 <= cnt p f.
Proof. induction f as [|n t IH]; cbn [cnt]; [lia|]. destruct (key p n); cbn [b2z]; lia. Qed.

Lemma cnt_app p f g : cnt p (f ++ g) = cnt p f + cnt p g.
Proof. induction f as [|n t IH]; cbn [cnt app]; [reflexivity|]. rewrite IH. lia. Qed.

Lemma cnt_setn p n' : forall f i n, nth_error f i = Some n ->
  cnt p (setn i n' f) = cnt p f - b2z (key p n) + b2z (key p n').
Proof.
  induction f as [|y t IH]; intros [|i] n H; simpl in *; try discriminate.
  - inversion H; subst. lia.
  - rewrite (IH i n H). lia.
Qed.

Lemma cnt_pos p : forall f i n, nth_error f i = Some n -> key p n = true -> 1 <= cnt p f.
Proof.
  induction f as [|y t IH]; intros [|i] n H K; simpl in *; try discriminate.
  - inversion H; subst. rewrite K. pose proof (cnt_nonneg p t). cbn [b2z]. lia.
  - pose proof (IH i n H K). destruct (key p y); cbn [b2z]; lia.
Qed.

Lemma cnt_zero p : forall f, (forall i n, nth_error f i = Some n -> key p n = false) -> cnt p f = 0.
Proof.
  induction f as [|y t IH]; intros H; simpl; [reflexivity|].
  rewrite (H O y eq_refl). rewrite IH; [reflexivity|]. intros i n Hn. apply (H (S i) n Hn).
Qed.

(* ---------- the invariant ---------- *)

(* [ex]: the node that has been marked dead and whose release is pending (kill, or the recursive
   call of release) is exempt from "dead without derived contexts => released" *)
Record Inv (ex : option nat) (f : forest) : Prop := mkInv {
  inv_lt : forall i n p, nth_error f i = Some n -> ncreator n = Some p -> (p < i)%nat;
  inv_par : forall i n, nth_error f i = Some n -> nparent n = if nreleased n then None else ncreator n;
  inv_cnt : forall i n, nth_error f i = Some n -> nchildren n = cnt i f;
  inv_rel : forall i n, nth_error f i = Some n -> nreleased n = true -> ndead n = true /\ nchildren n = 0;
  inv_leak : forall i n, nth_error f i = Some n -> ex <> Some i -> ndead n = true -> nchildren n = 0 -> nreleased n = true
}.

Lemma Inv_nil : Inv None [].
Proof. constructor; intros [|i] n; simpl; intros; discriminate. Qed.

(* an unreleased node keeps the node it was derived from unreleased *)
Lemma Inv_creator_unreleased ex f i n p pn :
  Inv ex f -> nth_error f i = Some n -> nreleased n = false -> ncreator n = Some p ->
  nth_error f p = Some pn -> nreleased pn = false /\ 1 <= nchildren pn.
Proof.
  intros I Hn Hr Hc Hp.
  assert (K : key p n = true) by (unfold key; rewrite Hc, Hr, Nat.eqb_refl; reflexivity).
  pose proof (cnt_pos p f i n Hn K) as C. rewrite <- (inv_cnt _ _ I p pn Hp) in C.
  split; [|exact C]. destruct (nreleased pn) eqn:E; [|reflexivity].
  destruct (inv_rel _ _ I p pn Hp E). lia.
Qed.

(* ---------- release ---------- *)

Definition same_shape (f f' : forest) : Prop :=
  map ndead f' = map ndead f /\ map ncreator f' = map ncreator f.

Lemma same_shape_refl f : same_shape f f.
Proof. split; reflexivity. Qed.

Lemma same_shape_trans f g h : same_shape f g -> same_shape g h -> same_shape f h.
Proof. intros [A B] [C D]. split; congruence. Qed.

Lemma same_shape_setn f i n n' :
  nth_error f i = Some n -> ndead n' = ndead n -> ncreator n' = ncreator n -> same_shape f (setn i n' f).
Proof.
  intros H D C. split; rewrite map_setn.
  - rewrite D. apply setn_same. rewrite nth_error_map, H. reflexivity.
  - rewrite C. apply setn_same. rewrite nth_error_map, H. reflexivity.
Qed.

Lemma release_ok : forall fuel f i n,
  Inv (Some i) f -> nth_error f i = Some n -> ndead n = true -> (i < fuel)%nat ->
  exists f', release fuel f i = Some f' /\ Inv None f' /\ same_shape f f'.
Proof.
  induction fuel as [|fu IH]; intros f i n I Hn Hd Hf; [lia|].
  simpl. rewrite Hn.
  destruct (nreleased n || (nchildren n >? 0)) eqn:E.
  { (* nothing to do *)
    exists f. split; [reflexivity|]. split; [|apply same_shape_refl].
    destruct I as [Ilt Ipar Icnt Irel Ileak].
    constructor; auto.
    intros j m Hm _ Dm Cm. destruct (Nat.eq_dec j i) as [->|Ne].
    - rewrite Hn in Hm. inversion Hm; subst m.
      apply orb_true_iff in E. destruct E as [E|E]; [exact E|lia].
    - apply (Ileak j m Hm); auto. congruence. }
  apply orb_false_iff in E. destruct E as [Er Ec].
  assert (C0 : nchildren n = 0).
  { pose proof (cnt_nonneg i f). rewrite <- (inv_cnt _ _ I i n Hn) in H. lia. }
  pose proof (nth_error_lt _ _ _ Hn) as Li.
  pose proof (inv_par _ _ I i n Hn) as Hpar. rewrite Er in Hpar.
  set (n1 := mkNode (ncreator n) true None (nchildren n) (ndead n)).
  set (f1 := setn i n1 f).
  assert (Hf1i : nth_error f1 i = Some n1) by (apply nth_error_setn_eq; exact Li).
  assert (Hf1j : forall j, j <> i -> nth_error f1 j = nth_error f j)
    by (intros j Hj; apply nth_error_setn_neq; congruence).
  assert (Hcnt1 : forall q, cnt q f1 = cnt q f - b2z (key q n)).
  { intros q. unfold f1. rewrite (cnt_setn q n1 f i n Hn).
    assert (key q n1 = false) by (unfold key, n1; simpl; apply andb_false_r). rewrite H. simpl. lia. }
  assert (Sh1 : same_shape f f1) by (apply (same_shape_setn f i n n1 Hn); reflexivity).
  destruct (ncreator n) as [p|] eqn:Hcr; rewrite Hpar.
  2:{ (* derived from the state's own context *)
    exists f1. split; [reflexivity|]. split; [|exact Sh1].
    assert (Kn : forall q, key q n = false) by (intros q; unfold key; rewrite Hcr; reflexivity).
    destruct I as [Ilt Ipar Icnt Irel Ileak].
    constructor.
    - intros j m q Hm Hq. destruct (Nat.eq_dec j i) as [->|Ne].
      + rewrite Hf1i in Hm. inversion Hm; subst m. unfold n1 in Hq; simpl in Hq. discriminate.
      + rewrite (Hf1j j Ne) in Hm. eapply Ilt; eauto.
    - intros j m Hm. destruct (Nat.eq_dec j i) as [->|Ne].
      + rewrite Hf1i in Hm. inversion Hm; subst m. reflexivity.
      + rewrite (Hf1j j Ne) in Hm. eauto.
    - intros j m Hm. rewrite Hcnt1, Kn. simpl. destruct (Nat.eq_dec j i) as [->|Ne].
      + rewrite Hf1i in Hm. inversion Hm; subst m. unfold n1; simpl. rewrite (Icnt i n Hn). lia.
      + rewrite (Hf1j j Ne) in Hm. rewrite (Icnt j m Hm). lia.
    - intros j m Hm Rm. destruct (Nat.eq_dec j i) as [->|Ne].
      + rewrite Hf1i in Hm. inversion Hm; subst m. unfold n1; simpl. auto.
      + rewrite (Hf1j j Ne) in Hm. eauto.
    - intros j m Hm _ Dm Cm. destruct (Nat.eq_dec j i) as [->|Ne].
      + rewrite Hf1i in Hm. inversion Hm; subst m. reflexivity.
      + rewrite (Hf1j j Ne) in Hm. apply (Ileak j m Hm); auto. congruence. }
  (* derived from node p *)
  pose proof (inv_lt _ _ I i n p Hn Hcr) as Lp.
  assert (Npi : p <> i) by lia.
  destruct (nth_error f p) as [pn|] eqn:Hp.
  2:{ apply nth_error_None in Hp. lia. }
  destruct (Inv_creator_unreleased _ _ _ _ _ _ I Hn Er Hcr Hp) as [Rp Cp].
  rewrite (Hf1j p Npi), Hp.
  set (pn1 := mkNode (ncreator pn) (nreleased pn) (nparent pn) (nchildren pn - 1) (ndead pn)).
  set (f2 := setn p pn1 f1).
  assert (Lp1 : (p < length f1)%nat) by (unfold f1; rewrite length_setn; lia).
  assert (Hf1p : nth_error f1 p = Some pn) by (rewrite (Hf1j p Npi); exact Hp).
  assert (Hf2p : nth_error f2 p = Some pn1) by (apply nth_error_setn_eq; exact Lp1).
  assert (Hf2i : nth_error f2 i = Some n1).
  { unfold f2. rewrite nth_error_setn_neq by exact Npi. exact Hf1i. }
  assert (Hf2j : forall j, j <> i -> j <> p -> nth_error f2 j = nth_error f j).
  { intros j H1 H2. unfold f2. rewrite nth_error_setn_neq by congruence. apply Hf1j; exact H1. }
  assert (Hcnt2 : forall q, cnt q f2 = cnt q f - b2z (key q n)).
  { intros q. unfold f2. rewrite (cnt_setn q pn1 f1 p pn Hf1p).
    assert (key q pn1 = key q pn) by reflexivity. rewrite H, Hcnt1. lia. }
  assert (Kn : forall q, key q n = Nat.eqb p q).
  { intros q. unfold key. rewrite Hcr, Er. simpl. apply andb_true_r. }
  assert (Sh2 : same_shape f f2).
  { apply (same_shape_trans f f1 f2 Sh1). apply (same_shape_setn f1 p pn pn1 Hf1p); reflexivity. }
  assert (I2 : Inv (Some p) f2).
  { destruct I as [Ilt Ipar Icnt Irel Ileak].
    constructor.
    - intros j m q Hm Hq. destruct (Nat.eq_dec j i) as [->|Ne]; [|destruct (Nat.eq_dec j p) as [->|Ne2]].
      + rewrite Hf2i in Hm. inversion Hm; subst m. unfold n1 in Hq; simpl in Hq. inversion Hq; subst q. exact Lp.
      + rewrite Hf2p in Hm. inversion Hm; subst m. unfold pn1 in Hq; simpl in Hq. eapply Ilt; eauto.
      + rewrite (Hf2j j Ne Ne2) in Hm. eapply Ilt; eauto.
    - intros j m Hm. destruct (Nat.eq_dec j i) as [->|Ne]; [|destruct (Nat.eq_dec j p) as [->|Ne2]].
      + rewrite Hf2i in Hm. inversion Hm; subst m. reflexivity.
      + rewrite Hf2p in Hm. inversion Hm; subst m. unfold pn1; simpl. apply (Ipar p pn Hp).
      + rewrite (Hf2j j Ne Ne2) in Hm. eauto.
    - intros j m Hm. rewrite Hcnt2, Kn.
      destruct (Nat.eq_dec j i) as [->|Ne]; [|destruct (Nat.eq_dec j p) as [->|Ne2]].
      + rewrite Hf2i in Hm. inversion Hm; subst m. unfold n1; simpl. rewrite (Icnt i n Hn).
        destruct (Nat.eqb_spec p i); [lia|]. simpl. lia.
      + rewrite Hf2p in Hm. inversion Hm; subst m. unfold pn1; simpl. rewrite (Icnt p pn Hp).
        rewrite Nat.eqb_refl. simpl. lia.
      + rewrite (Hf2j j Ne Ne2) in Hm. rewrite (Icnt j m Hm).
        destruct (Nat.eqb_spec p j); [congruence|]. simpl. lia.
    - intros j m Hm Rm. destruct (Nat.eq_dec j i) as [->|Ne]; [|destruct (Nat.eq_dec j p) as [->|Ne2]].
      + rewrite Hf2i in Hm. inversion Hm; subst m. unfold n1; simpl. auto.
      + rewrite Hf2p in Hm. inversion Hm; subst m. unfold pn1 in Rm; simpl in Rm. congruence.
      + rewrite (Hf2j j Ne Ne2) in Hm. eauto.
    - intros j m Hm Nj Dm Cm. destruct (Nat.eq_dec j i) as [->|Ne]; [|destruct (Nat.eq_dec j p) as [->|Ne2]].
      + rewrite Hf2i in Hm. inversion Hm; subst m. reflexivity.
      + congruence.
      + rewrite (Hf2j j Ne Ne2) in Hm. apply (Ileak j m Hm); auto. congruence. }
  destruct (ndead pn) eqn:Dp.
  - (* the node it was derived from is dead and may have been waiting for this one *)
    destruct (IH f2 p pn1 I2 Hf2p eq_refl ltac:(lia)) as (f' & R & I' & Sh').
    exists f'. split; [exact R|]. split; [exact I'|]. eapply same_shape_trans; eauto.
  - exists f2. split; [reflexivity|]. split; [|exact Sh2].
    destruct I2 as [Ilt Ipar Icnt Irel Ileak].
    constructor; auto.
    intros j m Hm _ Dm Cm. destruct (Nat.eq_dec j p) as [->|Ne].
    + rewrite Hf2p in Hm. inversion Hm; subst m. unfold pn1 in Dm; simpl in Dm. congruence.
    + apply (Ileak j m Hm); auto. congruence.
Qed.

Lemma kill_ok f i n :
  Inv None f -> nth_error f i = Some n -> ndead n = false ->
  exists f', kill f i = Some f' /\ Inv None f' /\ map ndead f' = setn i true (map ndead f) /\
             map ncreator f' = map ncreator f.
Proof.
  intros I Hn Hd. unfold kill. rewrite Hn.
  set (n0 := mkNode (ncreator n) (nreleased n) (nparent n) (nchildren n) true).
  set (f0 := setn i n0 f).
  pose proof (nth_error_lt _ _ _ Hn) as Li.
  assert (H0i : nth_error f0 i = Some n0) by (apply nth_error_setn_eq; exact Li).
  assert (H0j : forall j, j <> i -> nth_error f0 j = nth_error f j)
    by (intros j Hj; apply nth_error_setn_neq; congruence).
  assert (Hc0 : forall q, cnt q f0 = cnt q f).
  { intros q. unfold f0. rewrite (cnt_setn q n0 f i n Hn). assert (key q n0 = key q n) by reflexivity. rewrite H. lia. }
  assert (Rn : nreleased n = false).
  { destruct (nreleased n) eqn:E; [|reflexivity]. destruct (inv_rel _ _ I i n Hn E). congruence. }
  assert (I0 : Inv (Some i) f0).
  { destruct I as [Ilt Ipar Icnt Irel Ileak]. constructor.
    - intros j m q Hm Hq. destruct (Nat.eq_dec j i) as [->|Ne].
      + rewrite H0i in Hm. inversion Hm; subst m. eapply Ilt; eauto.
      + rewrite (H0j j Ne) in Hm. eapply Ilt; eauto.
    - intros j m Hm. destruct (Nat.eq_dec j i) as [->|Ne].
      + rewrite H0i in Hm. inversion Hm; subst m. apply (Ipar i n Hn).
      + rewrite (H0j j Ne) in Hm. eauto.
    - intros j m Hm. rewrite Hc0. destruct (Nat.eq_dec j i) as [->|Ne].
      + rewrite H0i in Hm. inversion Hm; subst m. apply (Icnt i n Hn).
      + rewrite (H0j j Ne) in Hm. eauto.
    - intros j m Hm Rm. destruct (Nat.eq_dec j i) as [->|Ne].
      + rewrite H0i in Hm. inversion Hm; subst m. unfold n0 in Rm; simpl in Rm. congruence.
      + rewrite (H0j j Ne) in Hm. eauto.
    - intros j m Hm Nj Dm Cm. destruct (Nat.eq_dec j i) as [->|Ne]; [congruence|].
      rewrite (H0j j Ne) in Hm. apply (Ileak j m Hm); auto. congruence. }
  destruct (release_ok (S i) f0 i n0 I0 H0i eq_refl ltac:(lia)) as (f' & R & I' & [Sd Sc]).
  exists f'. split; [exact R|]. split; [exact I'|]. split.
  - rewrite Sd. unfold f0. rewrite map_setn. reflexivity.
  - rewrite Sc. unfold f0. rewrite map_setn. apply setn_same. rewrite nth_error_map, Hn. reflexivity.
Qed.

(* ---------- derive ---------- *)

Lemma derive_ok f from :
  Inv None f ->
  match from with None => True | Some p => exists pn, nth_error f p = Some pn /\ ndead pn = false end ->
  Inv None (derive f from) /\ map ndead (derive f from) = map ndead f ++ [false].
Proof.
  intros I Hfrom. unfold derive.
  set (nn := mkNode from false from 0 false).
  destruct from as [p|].
  2:{ split; [|rewrite map_app; reflexivity].
      destruct I as [Ilt Ipar Icnt Irel Ileak].
      assert (Knn : forall q, key q nn = false) by reflexivity.
      assert (Hl : forall j m, nth_error (f ++ [nn]) j = Some m ->
                (nth_error f j = Some m /\ (j < length f)%nat) \/ (j = length f /\ m = nn)).
      { intros j m Hm. destruct (Nat.lt_ge_cases j (length f)).
        - rewrite nth_error_app1 in Hm by lia. auto.
        - rewrite nth_error_app2 in Hm by lia. destruct (j - length f)%nat as [|d] eqn:Ed; simpl in Hm.
          + inversion Hm. right. split; [lia|reflexivity].
          + destruct d; discriminate. }
      constructor.
      - intros j m q Hm Hq. destruct (Hl j m Hm) as [[H1 _]|[_ ->]]; [eapply Ilt; eauto|discriminate].
      - intros j m Hm. destruct (Hl j m Hm) as [[H1 _]|[_ ->]]; [eauto|reflexivity].
      - intros j m Hm. rewrite cnt_app. cbn [cnt]. rewrite Knn. cbn [b2z].
        destruct (Hl j m Hm) as [[H1 _]|[-> ->]]; [rewrite (Icnt j m H1); lia|].
        simpl. rewrite cnt_zero; [lia|]. intros k x Hx. unfold key.
        destruct (ncreator x) as [q|] eqn:Eq; [|reflexivity].
        pose proof (Ilt k x q Hx Eq). pose proof (nth_error_lt _ _ _ Hx).
        destruct (Nat.eqb_spec q (length f)); [lia|reflexivity].
      - intros j m Hm Rm. destruct (Hl j m Hm) as [[H1 _]|[_ ->]]; [eauto|discriminate].
      - intros j m Hm _ Dm Cm. destruct (Hl j m Hm) as [[H1 _]|[_ ->]]; [|discriminate].
        apply (Ileak j m H1); auto. congruence. }
  destruct Hfrom as (pn & Hp & Dp). rewrite Hp.
  set (pn1 := mkNode (ncreator pn) (nreleased pn) (nparent pn) (nchildren pn + 1) (ndead pn)).
  set (f1 := setn p pn1 f).
  pose proof (nth_error_lt _ _ _ Hp) as Lp.
  assert (L1 : length f1 = length f) by apply length_setn.
  assert (H1p : nth_error f1 p = Some pn1) by (apply nth_error_setn_eq; exact Lp).
  assert (H1j : forall j, j <> p -> nth_error f1 j = nth_error f j)
    by (intros j Hj; apply nth_error_setn_neq; congruence).
  assert (Hc1 : forall q, cnt q f1 = cnt q f).
  { intros q. unfold f1. rewrite (cnt_setn q pn1 f p pn Hp). assert (key q pn1 = key q pn) by reflexivity. rewrite H. lia. }
  assert (Rp : nreleased pn = false).
  { destruct (nreleased pn) eqn:E; [|reflexivity]. destruct (inv_rel _ _ I p pn Hp E). congruence. }
  assert (Knn : forall q, key q nn = Nat.eqb p q).
  { intros q. unfold key, nn. simpl. apply andb_true_r. }
  split.
  2:{ rewrite map_app. simpl. f_equal. unfold f1. rewrite map_setn. apply setn_same.
      rewrite nth_error_map, Hp. reflexivity. }
  assert (Hl : forall j m, nth_error (f1 ++ [nn]) j = Some m ->
            (nth_error f1 j = Some m /\ (j < length f)%nat) \/ (j = length f /\ m = nn)).
  { intros j m Hm. destruct (Nat.lt_ge_cases j (length f1)).
    - rewrite nth_error_app1 in Hm by lia. left. split; [exact Hm|lia].
    - rewrite nth_error_app2 in Hm by lia. destruct (j - length f1)%nat as [|d] eqn:Ed; simpl in Hm.
      + inversion Hm. right. split; [lia|reflexivity].
      + destruct d; discriminate. }
  destruct I as [Ilt Ipar Icnt Irel Ileak].
  constructor.
  - intros j m q Hm Hq. destruct (Hl j m Hm) as [[H1 _]|[-> ->]].
    + destruct (Nat.eq_dec j p) as [->|Ne].
      * rewrite H1p in H1. inversion H1; subst m. eapply Ilt; eauto.
      * rewrite (H1j j Ne) in H1. eapply Ilt; eauto.
    + unfold nn in Hq; simpl in Hq. inversion Hq; subst q. exact Lp.
  - intros j m Hm. destruct (Hl j m Hm) as [[H1 _]|[_ ->]]; [|reflexivity].
    destruct (Nat.eq_dec j p) as [->|Ne].
    + rewrite H1p in H1. inversion H1; subst m. apply (Ipar p pn Hp).
    + rewrite (H1j j Ne) in H1. eauto.
  - intros j m Hm. rewrite cnt_app, Hc1. cbn [cnt]. rewrite Knn.
    destruct (Hl j m Hm) as [[H1 Lj]|[-> ->]].
    + destruct (Nat.eq_dec j p) as [->|Ne].
      * rewrite H1p in H1. inversion H1; subst m. unfold pn1; simpl. rewrite (Icnt p pn Hp), Nat.eqb_refl. simpl. lia.
      * rewrite (H1j j Ne) in H1. rewrite (Icnt j m H1). destruct (Nat.eqb_spec p j); [congruence|]. simpl. lia.
    + simpl. destruct (Nat.eqb_spec p (length f)); [lia|]. simpl.
      rewrite cnt_zero; [lia|]. intros k x Hx. unfold key.
      destruct (ncreator x) as [q|] eqn:Eq; [|reflexivity].
      pose proof (Ilt k x q Hx Eq). pose proof (nth_error_lt _ _ _ Hx).
      destruct (Nat.eqb_spec q (length f)); [lia|reflexivity].
  - intros j m Hm Rm. destruct (Hl j m Hm) as [[H1 _]|[_ ->]]; [|discriminate].
    destruct (Nat.eq_dec j p) as [->|Ne].
    + rewrite H1p in H1. inversion H1; subst m. unfold pn1 in Rm; simpl in Rm. congruence.
    + rewrite (H1j j Ne) in H1. eauto.
  - intros j m Hm _ Dm Cm. destruct (Hl j m Hm) as [[H1 _]|[_ ->]]; [|discriminate].
    destruct (Nat.eq_dec j p) as [->|Ne].
    + rewrite H1p in H1. inversion H1; subst m. unfold pn1 in Dm; simpl in Dm. congruence.
    + rewrite (H1j j Ne) in H1. apply (Ileak j m H1); auto. congruence.
Qed.

(* ---------- the done flags ---------- *)

Lemma effs_released : forall f pre,
  Inv None (pre ++ f) -> effs f (map nreleased pre) = map nreleased (pre ++ f).
Proof.
  induction f as [|n t IH]; intros pre I; simpl.
  - rewrite app_nil_r. reflexivity.
  - assert (Hn : nth_error (pre ++ n :: t) (length pre) = Some n).
    { rewrite nth_error_app2 by lia. rewrite Nat.sub_diag. reflexivity. }
    assert (X : (nreleased n || match ncreator n with None => false | Some p => nth p (map nreleased pre) false end) = nreleased n).
    { destruct (nreleased n) eqn:Rn; [reflexivity|]. simpl.
      destruct (ncreator n) as [p|] eqn:Cn; [|reflexivity].
      pose proof (inv_lt _ _ I _ _ _ Hn Cn) as Lp.
      destruct (nth_error pre p) as [pn|] eqn:Hp.
      2:{ apply nth_error_None in Hp. lia. }
      assert (Hp' : nth_error (pre ++ n :: t) p = Some pn) by (rewrite nth_error_app1 by lia; exact Hp).
      destruct (Inv_creator_unreleased _ _ _ _ _ _ I Hn Rn Cn Hp') as [Rp _].
      erewrite nth_error_nth by (apply map_nth_error; exact Hp). exact Rp. }
    rewrite X.
    replace (map nreleased pre ++ [nreleased n]) with (map nreleased (pre ++ [n])) by (rewrite map_app; reflexivity).
    rewrite IH; rewrite <- app_assoc; simpl; [reflexivity|exact I].
Qed.

Lemma done_flags_released f : Inv None f -> done_flags f = map nreleased f.
Proof. intros I. unfold done_flags. apply (effs_released f []). exact I. Qed.

Lemma live_not_done_inv : forall f,
  (forall n, In n f -> nreleased n = true -> ndead n = true) ->
  live_not_done (map ndead f) (map nreleased f) = true.
Proof.
  induction f as [|n t IH]; intros H; simpl; [reflexivity|].
  rewrite IH by (intros m Hm; apply H; right; exact Hm).
  destruct (nreleased n) eqn:R; [rewrite (H n (or_introl eq_refl) R)|rewrite orb_true_r]; reflexivity.
Qed.

Lemma Inv_live_not_done f : Inv None f -> live_not_done (map ndead f) (done_flags f) = true.
Proof.
  intros I. rewrite (done_flags_released f I). apply live_not_done_inv.
  intros n Hin R. apply In_nth_error in Hin. destruct Hin as [i Hi].
  destruct (inv_rel _ _ I i n Hi R). assumption.
Qed.

(* ---------- histories ---------- *)


Lemma nth_map_ndead f k : nth k (map ndead f) true = match nth_error f k with Some n => ndead n | None => true end.
Proof.
  destruct (nth_error f k) as [n|] eqn:E.
  - apply nth_error_nth. apply map_nth_error. exact E.
  - apply nth_overflow. rewrite map_length. apply nth_error_None. exact E.
Qed.

(* one in-domain step: never out of fuel, the invariant is kept, the dead flags follow the specification *)
Lemma xstep_ok f o :
  Inv None f -> sdom (map ndead f) o = true ->
  exists f', xstep f o = Some f' /\ Inv None f' /\ map ndead f' = sstep (map ndead f) o.
Proof.
  intros I D. destruct o as [[|p]|[|k]]; simpl in *.
  - destruct (derive_ok f None I Logic.I) as [I' M]. eauto.
  - rewrite nth_map_ndead in D. destruct (nth_error f p) as [pn|] eqn:Hp; [|discriminate].
    apply negb_true_iff in D.
    destruct (derive_ok f (Some p) I (ex_intro _ pn (conj Hp D))) as [I' M]. eauto.
  - discriminate.
  - rewrite nth_map_ndead in D. destruct (nth_error f k) as [n|] eqn:Hk; [|discriminate].
    apply negb_true_iff in D.
    destruct (kill_ok f k n I Hk D) as (f' & K & I' & M & _). eauto.
Qed.

Lemma ctx_history_lemma : forall ops f,
  Inv None f -> sdomrun (map ndead f) ops = true ->
  (exists f', xrun f ops = Some f' /\ Inv None f' /\ map ndead f' = srun (map ndead f) ops) /\
  spec_ctx (map ndead f) ops (xobs f ops) = true.
Proof.
  induction ops as [|o t IH]; intros f I D; simpl in *.
  - split; [eauto|reflexivity].
  - apply andb_true_iff in D. destruct D as [D1 D2].
    destruct (xstep_ok f o I D1) as (f1 & S & I1 & M1).
    rewrite S, D1. rewrite <- M1 in D2. destruct (IH f1 I1 D2) as [(f' & R & I' & M') Sp].
    split.
    + exists f'. rewrite <- M1. auto.
    + rewrite <- M1. rewrite (Inv_live_not_done f1 I1). exact Sp.
Qed.

(* the context of a live thread is never done; no thread's fuel runs out *)
Lemma ctx_live_never_done_lemma : forall ops,
  sdomrun [] ops = true ->
  exists f, xrun [] ops = Some f /\ map ndead f = srun [] ops /\
            live_not_done (map ndead f) (done_flags f) = true /\
            (forall k n, nth_error f k = Some n -> ndead n = false -> nth k (done_flags f) true = false) /\
            (forall k n, nth_error f k = Some n -> ndead n = true -> nchildren n = 0 -> nth k (done_flags f) false = true).
Proof.
  intros ops D. destruct (ctx_history_lemma ops [] Inv_nil D) as [(f & R & I & M) _].
  exists f. split; [exact R|]. split; [exact M|]. split; [apply Inv_live_not_done; exact I|].
  rewrite (done_flags_released f I). split.
  - intros k n Hk Dk. erewrite nth_error_nth by (apply map_nth_error; exact Hk).
    destruct (nreleased n) eqn:E; [|reflexivity]. destruct (inv_rel _ _ I k n Hk E). congruence.
  - intros k n Hk Dk Ck. erewrite nth_error_nth by (apply map_nth_error; exact Hk).
    apply (inv_leak _ _ I k n Hk); auto. discriminate.
Qed.

(* what the model shows for an in-domain history meets the specification evaluated by check_spec *)
Lemma ctx_obs_meet_spec_lemma : forall ops,
  sdomrun [] ops = true -> spec_ctx [] ops (xobs [] ops) = true.
Proof. intros ops D. exact (proj2 (ctx_history_lemma ops [] Inv_nil D)). Qed.

(* the guard of release matters: releasing the creator's node whenever a derived context is given
   up (the seeded change C12-10) cancels a live coroutine's context *)
Lemma release_noguard_refuted_lemma :
  exists f f', Inv (Some 1%nat) f /\ release_noguard 2 f 1 = Some f' /\
               (exists n, nth_error f' 0 = Some n /\ ndead n = false) /\ nth 0 (done_flags f') false = true.
Proof.
  exists [mkNode None false None 1 false; mkNode (Some 0%nat) false (Some 0%nat) 0 true].
  eexists. split; [|split; [vm_compute; reflexivity|split; [eexists; split; reflexivity|reflexivity]]].
  assert (Hl : forall i n, nth_error [mkNode None false None 1 false; mkNode (Some 0%nat) false (Some 0%nat) 0 true] i = Some n ->
            (i = 0%nat /\ n = mkNode None false None 1 false) \/ (i = 1%nat /\ n = mkNode (Some 0%nat) false (Some 0%nat) 0 true)).
  { intros [|[|[|i]]] n H; simpl in H; inversion H; auto. }
  constructor.
  - intros i n p H C. destruct (Hl i n H) as [[-> ->]|[-> ->]]; simpl in C; inversion C. lia.
  - intros i n H. destruct (Hl i n H) as [[-> ->]|[-> ->]]; reflexivity.
  - intros i n H. destruct (Hl i n H) as [[-> ->]|[-> ->]]; reflexivity.
  - intros i n H R. destruct (Hl i n H) as [[-> ->]|[-> ->]]; simpl in R; discriminate.
  - intros i n H N D C. destruct (Hl i n H) as [[-> ->]|[-> ->]]; simpl in *; try discriminate. congruence.
Qed.
