(* M-Stack / CallFrames: the two call-frame stack implementations of state.go
   (fixedCallFrameStack, autoGrowingCallFrameStack with 8-frame segments and a segment pool) and the
   bounded list stack they are proved to refine.  Model only, no proofs.

   A frame is projected to (tag, Idx): the tag is what the driver stores in NArgs, Idx is the field
   Push maintains.  The segment pool (sync.Pool) may hand back a segment that still holds frames of
   an earlier use: every Push carries the contents [dirty] the pool would hand out if a segment is
   needed, and the theorems quantify over it.

   uint16 segIdx / uint8 segSp wrap-around is not modelled (CallStackSize < 8 * 65535 assumed). *)
From GL Require Export Common.Bytes.

Definition FramesPerSegment : Z := 8.

Record frame := mkFrame { ftag : Z; fidx : Z }.
Definition frame_eqb (a b : frame) := (ftag a =? ftag b) && (fidx a =? fidx b).

(* observations of one operation *)
Inductive sobs :=
| OUnit
| OFrame (f : option frame)      (* *callFrame; None = nil *)
| OZ (z : Z)
| OBool (b : bool)
| OPanicOverflow                 (* panic("lua callstack overflow") *)
| OFault.                        (* Go runtime panic: outside the domain *)

Definition sobs_eqb (a b : sobs) : bool :=
  match a, b with
  | OUnit, OUnit => true
  | OFrame x, OFrame y => opt_eqb frame_eqb x y
  | OZ x, OZ y => x =? y
  | OBool x, OBool y => Bool.eqb x y
  | OPanicOverflow, OPanicOverflow => true
  | OFault, OFault => true
  | _, _ => false
  end.

Inductive sop :=
| SPush (tag : Z) (dirty : list frame)
| SPop
| SLast
| SAt (i : Z)
| SSetSp (n : Z)
| SSp
| SIsEmpty
| SIsFull.

Definition nthF (l : list frame) (i : Z) : option frame :=
  if i <? 0 then None else nth_error l (Z.to_nat i).

Fixpoint updF {A} (l : list A) (n : nat) (x : A) : list A :=
  match l, n with
  | [], _ => []
  | _ :: t, O => x :: t
  | h :: t, S k => h :: updF t k x
  end.
Definition updZ {A} (l : list A) (i : Z) (x : A) : list A :=
  if i <? 0 then l else updF l (Z.to_nat i) x.

(* ---------------------------------------------------------------------------------------------- *)
(* fixedCallFrameStack { array []callFrame; sp int }                                              *)

Record fstack := mkF { farr : list frame; fsp : Z }.

Definition junkFrame := mkFrame 0 0.        (* make([]callFrame, size): zero frames *)
Definition newFixed (size : Z) : fstack := mkF (repeat junkFrame (Z.to_nat size)) 0.

Definition fstep (s : fstack) (o : sop) : fstack * sobs :=
  match o with
  | SPush tag _ =>
      (* cs.array[cs.sp] = v; cs.array[cs.sp].Idx = cs.sp; cs.sp++ *)
      if (fsp s <? 0) || (fsp s >=? len (farr s)) then (s, OFault)
      else (mkF (updZ (farr s) (fsp s) (mkFrame tag (fsp s))) (fsp s + 1), OUnit)
  | SPop =>
      (* cs.sp--; return &cs.array[cs.sp] *)
      match nthF (farr s) (fsp s - 1) with
      | Some f => (mkF (farr s) (fsp s - 1), OFrame (Some f))
      | None => (mkF (farr s) (fsp s - 1), OFault)
      end
  | SLast =>
      if fsp s =? 0 then (s, OFrame None)
      else match nthF (farr s) (fsp s - 1) with
           | Some f => (s, OFrame (Some f))
           | None => (s, OFault)
           end
  | SAt i =>
      match nthF (farr s) i with
      | Some f => (s, OFrame (Some f))
      | None => (s, OFault)
      end
  | SSetSp n => (mkF (farr s) n, OUnit)
  | SSp => (s, OZ (fsp s))
  | SIsEmpty => (s, OBool (fsp s =? 0))
  | SIsFull => (s, OBool (fsp s =? len (farr s)))
  end.

(* ---------------------------------------------------------------------------------------------- *)
(* autoGrowingCallFrameStack { segments []*callFrameStackSegment; segIdx; segSp }                 *)

Record astack := mkA { segs : list (option (list frame)); segIdx : Z; segSp : Z }.

Definition nseg (s : astack) : Z := len (segs s).
Definition seg (s : astack) (i : Z) : option (list frame) :=
  if i <? 0 then None else match nth_error (segs s) (Z.to_nat i) with Some (Some g) => Some g | _ => None end.

(* newAutoGrowingCallFrameStack(maxSize): (maxSize+7)/8 slots, segment 0 from the pool *)
Definition newAuto (maxSize : Z) (dirty0 : list frame) : astack :=
  let n := (maxSize + (FramesPerSegment - 1)) / FramesPerSegment in
  mkA (Some dirty0 :: repeat None (Z.to_nat (n - 1))) 0 0.

Definition aSp (s : astack) : Z := segSp s + segIdx s * FramesPerSegment.

(* the loop of SetSp: while segIdx > desired { free(segments[segIdx]); segments[segIdx] = nil; segIdx-- } *)
Fixpoint unwindSegs (sg : list (option (list frame))) (idx desired : Z) (fuel : nat) :=
  match fuel with
  | O => (sg, idx)
  | S k => if idx <=? desired then (sg, idx) else unwindSegs (updZ sg idx None) (idx - 1) desired k
  end.

Definition aPush (s : astack) (tag : Z) (dirty : list frame) : astack * sobs :=
  (* curSeg := cs.segments[cs.segIdx]
     if cs.segSp >= FramesPerSegment {
        if cs.segIdx < len(cs.segments)-1 { curSeg = new(); cs.segIdx++; cs.segments[cs.segIdx] = curSeg; cs.segSp = 0 }
        else { panic("lua callstack overflow") } }
     curSeg.array[cs.segSp] = v; curSeg.array[cs.segSp].Idx = segSp + 8*segIdx; cs.segSp++ *)
  if segSp s >=? FramesPerSegment then
    if segIdx s <? nseg s - 1 then
      let i := segIdx s + 1 in
      let g := updZ dirty 0 (mkFrame tag (0 + FramesPerSegment * i)) in
      (mkA (updZ (segs s) i (Some g)) i 1, OUnit)
    else (s, OPanicOverflow)
  else
    match seg s (segIdx s) with
    | Some g =>
        let g' := updZ g (segSp s) (mkFrame tag (segSp s + FramesPerSegment * segIdx s)) in
        (mkA (updZ (segs s) (segIdx s) (Some g')) (segIdx s) (segSp s + 1), OUnit)
    | None => (s, OFault)
    end.

(* SetSp as it is now (after fix 00581fb): a no-op unless sp is below the current depth *)
Definition aSetSp (s : astack) (sp : Z) : astack :=
  if sp >=? aSp s then s
  else
    let desiredSegIdx := sp / FramesPerSegment in
    let desiredFramesInLastSeg := sp mod FramesPerSegment in
    let '(sg, idx) := unwindSegs (segs s) (segIdx s) desiredSegIdx (Z.to_nat (segIdx s)) in
    mkA sg idx desiredFramesInLastSeg.

(* SetSp as it was on the pinned tree (kept for the refutation witness C12-2) *)
Definition aSetSp_old (s : astack) (sp : Z) : astack :=
  let desiredSegIdx := sp / FramesPerSegment in
  let desiredFramesInLastSeg := sp mod FramesPerSegment in
  let '(sg, idx) := unwindSegs (segs s) (segIdx s) desiredSegIdx (Z.to_nat (segIdx s)) in
  mkA sg idx desiredFramesInLastSeg.

Definition aLast (s : astack) : sobs :=
  if segSp s =? 0 then
    if segIdx s =? 0 then OFrame None
    else match seg s (segIdx s - 1) with
         | Some g => match nthF g (FramesPerSegment - 1) with Some f => OFrame (Some f) | None => OFault end
         | None => OFault
         end
  else match seg s (segIdx s) with
       | Some g => match nthF g (segSp s - 1) with Some f => OFrame (Some f) | None => OFault end
       | None => OFault
       end.

Definition aAt (s : astack) (sp : Z) : sobs :=
  match seg s (sp / FramesPerSegment) with
  | Some g => match nthF g (sp mod FramesPerSegment) with Some f => OFrame (Some f) | None => OFault end
  | None => OFault
  end.

Definition aPop (s : astack) : astack * sobs :=
  (* if cs.segSp == 0 { if cs.segIdx == 0 { return nil }; free(curSeg); segments[segIdx] = nil;
       cs.segIdx--; cs.segSp = FramesPerSegment; curSeg = cs.segments[cs.segIdx] }
     cs.segSp--; return &curSeg.array[cs.segSp] *)
  if segSp s =? 0 then
    if segIdx s =? 0 then (s, OFrame None)
    else
      let s1 := mkA (updZ (segs s) (segIdx s) None) (segIdx s - 1) (FramesPerSegment - 1) in
      match seg s1 (segIdx s1) with
      | Some g => match nthF g (segSp s1) with Some f => (s1, OFrame (Some f)) | None => (s1, OFault) end
      | None => (s1, OFault)
      end
  else
    let s1 := mkA (segs s) (segIdx s) (segSp s - 1) in
    match seg s (segIdx s) with
    | Some g => match nthF g (segSp s1) with Some f => (s1, OFrame (Some f)) | None => (s1, OFault) end
    | None => (s1, OFault)
    end.

(* IsFull as it is now (after fix 300d9b1) and as it was (C12-1) *)
Definition aIsFull (s : astack) : bool := (segIdx s =? nseg s - 1) && (segSp s >=? FramesPerSegment).
Definition aIsFull_old (s : astack) : bool := (segIdx s =? nseg s) && (segSp s >=? FramesPerSegment).

Definition astep (s : astack) (o : sop) : astack * sobs :=
  match o with
  | SPush tag dirty => aPush s tag dirty
  | SPop => aPop s
  | SLast => (s, aLast s)
  | SAt i => (s, aAt s i)
  | SSetSp n => (aSetSp s n, OUnit)
  | SSp => (s, OZ (aSp s))
  | SIsEmpty => (s, OBool ((segIdx s =? 0) && (segSp s =? 0)))
  | SIsFull => (s, OBool (aIsFull s))
  end.

Fixpoint frun (s : fstack) (ops : list sop) : list sobs :=
  match ops with [] => [] | o :: t => let (s1, b) := fstep s o in b :: frun s1 t end.
Fixpoint arun_ (s : astack) (ops : list sop) : list sobs :=
  match ops with [] => [] | o :: t => let (s1, b) := astep s o in b :: arun_ s1 t end.
Fixpoint afinal (s : astack) (ops : list sop) : astack :=
  match ops with [] => s | o :: t => afinal (fst (astep s o)) t end.
Fixpoint ffinal (s : fstack) (ops : list sop) : fstack :=
  match ops with [] => s | o :: t => ffinal (fst (fstep s o)) t end.

(* ---------------------------------------------------------------------------------------------- *)
(* Specification: a stack of tags as a list (bottom first) with a capacity.                        *)

Definition lframe (l : list Z) (i : Z) : option frame :=
  if i <? 0 then None else match nth_error l (Z.to_nat i) with Some t => Some (mkFrame t i) | None => None end.

Definition lstep (c : Z) (l : list Z) (o : sop) : list Z * sobs :=
  match o with
  | SPush tag _ => (l ++ [tag], OUnit)
  | SPop => (firstn (Z.to_nat (len l - 1)) l, OFrame (lframe l (len l - 1)))
  | SLast => (l, OFrame (lframe l (len l - 1)))
  | SAt i => (l, OFrame (lframe l i))
  | SSetSp n => (firstn (Z.to_nat n) l, OUnit)
  | SSp => (l, OZ (len l))
  | SIsEmpty => (l, OBool (len l =? 0))
  | SIsFull => (l, OBool (len l =? c))
  end.

(* the domain: Push only when not full, Pop/At inside, SetSp downwards (or to the current depth) *)
Definition sop_dom (c : Z) (l : list Z) (o : sop) : bool :=
  match o with
  | SPush _ dirty => (len l <? c) && (len dirty =? FramesPerSegment)
  | SPop => 0 <? len l
  | SAt i => (0 <=? i) && (i <? len l)
  | SSetSp n => (0 <=? n) && (n <=? len l)
  | _ => true
  end.

Fixpoint lrun (c : Z) (l : list Z) (ops : list sop) : list sobs :=
  match ops with [] => [] | o :: t => let (l1, b) := lstep c l o in b :: lrun c l1 t end.
Fixpoint lfinal (c : Z) (l : list Z) (ops : list sop) : list Z :=
  match ops with [] => l | o :: t => lfinal c (fst (lstep c l o)) t end.
Fixpoint ldom (c : Z) (l : list Z) (ops : list sop) : bool :=
  match ops with [] => true | o :: t => sop_dom c l o && ldom c (fst (lstep c l o)) t end.

(* capacity of the auto-growing stack: maxSize rounded up to whole segments (documented in state.go) *)
Definition autoCap (maxSize : Z) : Z :=
  FramesPerSegment * ((maxSize + (FramesPerSegment - 1)) / FramesPerSegment).

(* ---------------------------------------------------------------------------------------------- *)
(* Option normalisation of NewState (state.go) and the limits it fixes.                            *)

Record options := mkOpt { oCallStackSize : Z; oRegistrySize : Z; oRegistryMaxSize : Z;
                          oRegistryGrowStep : Z; oMinimize : bool }.

Definition dCallStackSize : Z := 256.
Definition dRegistrySize : Z := 256 * 20.
Definition dRegistryGrowStep : Z := 32.

(* NewState(opts[0]) : the branch with an Options argument *)
Definition normalise (o : options) : options :=
  let css := if oCallStackSize o <? 1 then dCallStackSize else oCallStackSize o in
  let rs := if oRegistrySize o <? 128 then dRegistrySize else oRegistrySize o in
  if oRegistryMaxSize o <? rs then mkOpt css rs 0 (oRegistryGrowStep o) (oMinimize o)
  else mkOpt css rs (oRegistryMaxSize o)
             (if oRegistryGrowStep o <? 1 then dRegistryGrowStep else oRegistryGrowStep o) (oMinimize o).

Definition options_eqb (a b : options) : bool :=
  (oCallStackSize a =? oCallStackSize b) && (oRegistrySize a =? oRegistrySize b)
  && (oRegistryMaxSize a =? oRegistryMaxSize b) && (oRegistryGrowStep a =? oRegistryGrowStep b)
  && Bool.eqb (oMinimize a) (oMinimize b).

(* the two limits of a normalised configuration *)
Definition callLimit (o : options) : Z :=
  if oMinimize o then autoCap (oCallStackSize o) else oCallStackSize o.
Definition regLimit (o : options) : Z := Z.max (oRegistrySize o) (oRegistryMaxSize o).

(* ---------------------------------------------------------------------------------------------- *)
(* Representation relations used in the statements of the refinement theorems.                     *)

(* the fixed stack s stands for the list l *)
Definition Rf (s : fstack) (l : list Z) : Prop :=
  fsp s = len l /\ len l <= len (farr s) /\
  forall i, 0 <= i < len l -> nthF (farr s) i = lframe l i.

Definition segRaw (sg : list (option (list frame))) (i : Z) : option (option (list frame)) :=
  if i <? 0 then None else nth_error sg (Z.to_nat i).

(* the segment bookkeeping invariant together with the abstraction to the list *)
Record Ra (s : astack) (l : list Z) : Prop := mkRa {
  ra_nseg : 1 <= nseg s;
  ra_idx : 0 <= segIdx s < nseg s;
  ra_sp : 0 <= segSp s <= FramesPerSegment;
  ra_len : len l = segSp s + segIdx s * FramesPerSegment;
  ra_live : forall i, 0 <= i <= segIdx s -> exists g, segRaw (segs s) i = Some (Some g) /\ len g = FramesPerSegment;
  ra_dead : forall i, segIdx s < i < nseg s -> segRaw (segs s) i = Some None;
  ra_frames : forall j, 0 <= j < len l ->
      exists g, segRaw (segs s) (j / FramesPerSegment) = Some (Some g) /\
                nthF g (j mod FramesPerSegment) = lframe l j
}.


(* what NewState guarantees about the options it stores *)
Definition normal (o : options) : Prop :=
  1 <= oCallStackSize o /\ 128 <= oRegistrySize o /\
  (oRegistryMaxSize o = 0 \/ (oRegistrySize o <= oRegistryMaxSize o /\ 1 <= oRegistryGrowStep o)).
