(* M-Stack / Client: "any program" as a client of the two components — an interaction tree that
   chooses its next call-frame-stack or registry operation from the answers it has got so far —
   run against an implementation configured by Options, and against the unbounded specification.
   Model only, no proofs. *)
From GL Require Export Stack.Registry Stack.RegSpec Stack.CallFrames.

Inductive vop := VS (o : sop) | VR (o : rop).
Inductive vans := AS (b : sobs) | AR (st : rstatus) (ret : option cell) | AFault.

Inductive client := Done | Ask (o : vop) (k : vans -> client).

(* the call-frame stack of a state: one of the two implementations *)
Inductive stk := SF (s : fstack) | SA (s : astack).

(* the segment pool decides what a new segment contains: pool n at the n-th step *)
Definition redirty (d : list frame) (o : sop) : sop :=
  match o with SPush t _ => SPush t d | _ => o end.

Definition stk_step (d : list frame) (s : stk) (o : sop) : stk * sobs :=
  match s with
  | SF f => let (f', b) := fstep f o in (SF f', b)
  | SA a => let (a', b) := astep a (redirty d o) in (SA a', b)
  end.

Fixpoint vrun (pool : nat -> list frame) (n : nat) (s : stk) (r : registry) (cl : client) : list vans :=
  match cl with
  | Done => []
  | Ask (VS o) k =>
      let (s', b) := stk_step (pool n) s o in
      AS b :: vrun pool (S n) s' r (k (AS b))
  | Ask (VR o) k =>
      match rstep r o with
      | Ok (r', ret) => AR SOk ret :: vrun pool (S n) s r' (k (AR SOk ret))
      | Overflow => AR SOverflow None :: vrun pool (S n) s r (k (AR SOverflow None))
      | Fault => [AFault]
      end
  end.

(* newLState(options): the stack implementation chosen by MinimizeStackMemory, the registry from
   RegistrySize / RegistryGrowStep / RegistryMaxSize *)
Definition newStk (o : options) (d0 : list frame) : stk :=
  if oMinimize o then SA (newAuto (oCallStackSize o) d0) else SF (newFixed (oCallStackSize o)).
Definition newReg (o : options) : registry :=
  newRegistry (oRegistrySize o) (oRegistryGrowStep o) (oRegistryMaxSize o).

Definition run_config (o : options) (pool : nat -> list frame) (cl : client) : list vans :=
  vrun pool 1 (newStk o (pool 0%nat)) (newReg o) cl.

(* the specification: an unbounded stack of tags and an unbounded list of cells; IsFull is never true *)
Definition unbounded : Z := -1.

Fixpoint vspec (l : list Z) (rl : list cell) (cl : client) : list vans :=
  match cl with
  | Done => []
  | Ask (VS o) k =>
      let (l', b) := lstep unbounded l o in AS b :: vspec l' rl (k (AS b))
  | Ask (VR o) k =>
      let (rl', ret) := lstepR rl o in AR SOk ret :: vspec l rl' (k (AR SOk ret))
  end.

(* the client stays inside the domain and below a call-stack depth c and a registry size lim *)
Definition sop_below (c : Z) (l : list Z) (o : sop) : bool :=
  match o with
  | SPush _ _ => len l <? c
  | SIsFull => len l <? c
  | _ => sop_dom c l o
  end.

Fixpoint vbelow (c lim : Z) (l : list Z) (rl : list cell) (cl : client) : Prop :=
  match cl with
  | Done => True
  | Ask (VS o) k =>
      sop_below c l o = true /\
      vbelow c lim (fst (lstep unbounded l o)) rl (k (AS (snd (lstep unbounded l o))))
  | Ask (VR o) k =>
      rop_dom (len rl) o = true /\ rneed (len rl) o <= lim /\
      vbelow c lim l (fst (lstepR rl o)) (k (AR SOk (snd (lstepR rl o))))
  end.
